// node.go: the harness node. Real chain in a temp dir, common/network/txpool/peersdb globals initialised the
// way client/main.go + client/init.go do, no sockets. One session = one real OneConnection.Run() over a net.Pipe.
package main

import (
	"bytes"
	"encoding/binary"
	"errors"
	"fmt"
	"io"
	"math/big"
	"math/rand"
	"net"
	"os"
	"runtime"
	"strings"
	"sync"
	"sync/atomic"
	"time"

	"github.com/piotrnar/gocoin/client/common"
	"github.com/piotrnar/gocoin/client/network"
	"github.com/piotrnar/gocoin/client/peersdb"
	"github.com/piotrnar/gocoin/client/txpool"
	"github.com/piotrnar/gocoin/lib/btc"
	"github.com/piotrnar/gocoin/lib/chain"
	"github.com/piotrnar/gocoin/lib/others/qdb"
	"github.com/piotrnar/gocoin/lib/others/verif"
	"github.com/piotrnar/gocoin/lib/script"
	"github.com/piotrnar/gocoin/lib/utxo"
)

const (
	baseBlocks = 112
	blockTime0 = 1750000000
	blockStep  = 1300 // > 2*TargetSpacing: every block is a min-difficulty block
)

type World struct {
	dir        string
	ch         *chain.Chain
	priv, pub  []byte
	wpk, p2pkh []byte
	genesis    [32]byte
	baseHeight uint32
	baseTip    *chain.BlockTreeNode
	baseIdx    map[btc.BIDX]bool
	tipHash    [32]byte
	midHash    [32]byte
	blk2Hash   [32]byte   // a base block with two transactions
	blk4Hash   [32]byte   // a base block with four transactions
	side1Hash  [32]byte   // a dead side branch of two blocks that forks off the active chain at height 99:
	side2Hash  [32]byte   // ... S1 (height 100) and its tip S2 (height 101), both delivered and stored
	cb2        *btc.Tx    // coinbase of B2
	orph       [2]*btc.Tx // two orphan transactions with the same short id under (B1 header, orphanNonce)
	orphSid    uint64
	unkHash    [2][32]byte
	b1, b2     []byte // the next two blocks, not given to the node
	b1Hash     [32]byte
	b2Hash     [32]byte
	cb1, tx1   *btc.Tx

	syncCh                 chan chan struct{}
	peersNormal, peersFull *qdb.DB
	mainPanic              atomic.Value
}

func fatal(a ...interface{}) {
	fmt.Fprintln(os.Stderr, append([]interface{}{"HARNESS-FATAL:"}, a...)...)
	os.Exit(3)
}

func (w *World) coinbase(height uint32, extra []*btc.Tx) *btc.Tx {
	cb := &btc.Tx{Version: 2, Lock_time: 0}
	in := &btc.TxIn{Sequence: 0xffffffff}
	in.Input.Vout = 0xffffffff
	in.ScriptSig = append(script.UintToScript(height), 0x51, 0x51)
	cb.TxIn = []*btc.TxIn{in}
	cb.TxOut = []*btc.TxOut{{Value: 50e8, Pk_script: w.wpk}}
	cb.SegWit = [][][]byte{{make([]byte, 32)}}
	// witness commitment over coinbase (zero) + extra txs
	all := append([]*btc.Tx{cb}, extra...)
	wm, _ := btc.GetWitnessMerkle(all)
	cm := btc.Sha2Sum(append(append([]byte(nil), wm...), make([]byte, 32)...))
	cb.TxOut = append(cb.TxOut, &btc.TxOut{Value: 0, Pk_script: append([]byte{0x6a, 0x24, 0xaa, 0x21, 0xa9, 0xed}, cm[:]...)})
	raw := cb.SerializeNew()
	cb.SetHash(raw)
	return cb
}

// spend builds a signed segwit transaction spending output 0 of a coinbase paying to w.wpk.
func (w *World) spend(cb *btc.Tx, fee uint64) *btc.Tx {
	tx := &btc.Tx{Version: 2}
	in := &btc.TxIn{Sequence: 0xfffffffd}
	in.Input.Hash = cb.Hash.Hash
	in.Input.Vout = 0
	tx.TxIn = []*btc.TxIn{in}
	v := cb.TxOut[0].Value - fee
	tx.TxOut = []*btc.TxOut{{Value: v / 2, Pk_script: w.wpk}, {Value: v - v/2, Pk_script: w.p2pkh}}
	tx.AllocVerVars()
	if er := tx.SignWitness(0, w.p2pkh, cb.TxOut[0].Value, btc.SIGHASH_ALL, w.pub, w.priv); er != nil {
		fatal("sign", er)
	}
	tx.Clean()
	raw := tx.SerializeNew()
	tx.SetHash(raw)
	return tx
}

func (w *World) mine(parent [32]byte, ts uint32, txs []*btc.Tx) []byte {
	hdr := make([]byte, 80)
	binary.LittleEndian.PutUint32(hdr[0:4], 0x20000000)
	copy(hdr[4:36], parent[:])
	mtr := make([][32]byte, len(txs), 3*len(txs))
	for i, t := range txs {
		mtr[i] = t.Hash.Hash
	}
	mr, _ := btc.CalcMerkle(mtr)
	copy(hdr[36:68], mr)
	binary.LittleEndian.PutUint32(hdr[68:72], ts)
	binary.LittleEndian.PutUint32(hdr[72:76], w.ch.Consensus.MaxPOWBits)
	for n := uint32(0); ; n++ {
		binary.LittleEndian.PutUint32(hdr[76:80], n)
		if btc.CheckProofOfWork(btc.NewSha2Hash(hdr), w.ch.Consensus.MaxPOWBits) {
			break
		}
	}
	raw := append(hdr, cs(uint64(len(txs)))...)
	for _, t := range txs {
		raw = append(raw, t.Raw...)
	}
	return raw
}

func newWorld(dir string) *World {
	w := &World{dir: dir}
	if dir == "" || dir == "/" {
		fatal("no scratch directory given")
	}
	os.RemoveAll(dir) // always a fresh chain
	os.MkdirAll(dir, 0770)
	btc.EcdsaSignWithRFC6979 = true
	w.priv = bytes.Repeat([]byte{0x18}, 32)
	w.pub = btc.PublicFromPrivate(w.priv, true)
	h160 := btc.Rimp160AfterSha256(w.pub)
	w.wpk = append([]byte{0x00, 0x14}, h160[:]...)
	w.p2pkh = append(append([]byte{0x76, 0xa9, 0x14}, h160[:]...), 0x88, 0xac)

	// --- what common.InitConfig() fills in
	c := &common.CFG
	c.Net.ListenTCP = false // no sockets in the harness
	c.Net.MaxOutCons, c.Net.MaxInCons, c.Net.MaxBlockAtOnce, c.Net.BindToIF = 20, 20, 3, "127.0.0.1"
	c.WebUI.AllowedIP = "127.0.0.1"
	c.TXPool.Enabled, c.TXPool.AllowMemInputs, c.TXPool.FeePerByte, c.TXPool.MaxTxWeight = true, true, 0.001, 400e3
	c.TXPool.MaxSizeMB, c.TXPool.ExpireInDays, c.TXPool.MaxRejectMB, c.TXPool.MaxNoUtxoMB, c.TXPool.RejectRecCnt = 500, 14, 25.0, 5.0, 20000
	c.TXRoute.Enabled, c.TXRoute.FeePerByte, c.TXRoute.MaxTxWeight = true, 0.1, 400e3
	c.Memory.GCPercTrshold, c.Memory.MaxCachedBlks, c.Memory.CacheOnDisk, c.Memory.SyncCacheSize = 100, 200, true, 500
	c.Stat.HashrateHrs, c.Stat.MiningHrs, c.Stat.FeesBlks, c.Stat.BSizeBlks = 12, 24, 24, 1008
	c.DropPeers.DropEachMinutes, c.DropPeers.BlckExpireHours, c.DropPeers.PingPeriodSec, c.DropPeers.ImmunityMinutes = 5, 24, 15, 15
	c.UTXOSave.SecondsToTake, c.UTXOSave.BlocksToHold = 0, 6
	c.Datadir = dir
	c.Memory.UseGoHeap = true
	common.Services |= btc.SERVICE_NETWORK

	// --- what host_init() does
	common.GocoinHomeDir = dir + string(os.PathSeparator)
	common.Testnet = true
	common.Magic = [4]byte{0xfa, 0xbf, 0xb5, 0xda}
	common.DefaultTcpPort = 18444
	gen := btc.NewSha2Hash([]byte("verif-c18-genesis"))
	gen.Hash[0], gen.Hash[1] = 0x43, 0xf0 // testnet4 style: every soft fork active from height 1
	common.GenesisBlock = gen
	w.genesis = gen.Hash
	common.SecretKey = bytes.Repeat([]byte{0x4e}, 32)
	common.PublicKeyBin = btc.PublicFromPrivate(common.SecretKey, true)
	common.PublicKey = btc.Encodeb58(common.PublicKeyBin)
	utxo.UTXO_WRITING_TIME_TARGET = 0
	ch := chain.NewChainExt(common.GocoinHomeDir, gen, false,
		&chain.NewChanOpts{BlockMinedCB: txpool.BlockMined, BlockUndoneCB: txpool.BlockUndone, DoNotRescan: true},
		&chain.BlockDBOpts{MaxCachedBlocks: 200})
	ch.Consensus.MaxPOWBits = 0x207fffff
	ch.Consensus.MaxPOWValue = new(big.Int).Lsh(big.NewInt(0x7fffff), 8*29)
	ch.Consensus.GensisTimestamp = blockTime0
	ch.Consensus.BIP34Height, ch.Consensus.BIP65Height, ch.Consensus.BIP66Height = 1, 1, 1
	ch.Consensus.Enforce_CSV, ch.Consensus.Enforce_SEGWIT, ch.Consensus.Enforce_Taproot = 1, 1, 1
	ch.RebuildGenesisHeader()
	w.ch = ch
	common.BlockChain = ch

	// --- the base chain: coinbases pay to our key; block 105 also spends the coinbase of block 1
	var cbs []*btc.Tx
	var fork [32]byte
	parent := w.genesis
	for h := uint32(1); h <= baseBlocks; h++ {
		var extra []*btc.Tx
		if h == 105 {
			extra = append(extra, w.spend(cbs[0], 5000))
		}
		if h == 106 {
			extra = append(extra, w.spend(cbs[2], 5000), w.spend(cbs[3], 5000), w.spend(cbs[4], 5000))
		}
		cb := w.coinbase(h, extra)
		cbs = append(cbs, cb)
		raw := w.mine(parent, blockTime0+h*blockStep, append([]*btc.Tx{cb}, extra...))
		bl, er := btc.NewBlock(raw)
		if er != nil {
			fatal("NewBlock", er)
		}
		ch.BlockIndexAccess.Lock()
		_, _, er = ch.CheckBlock(bl)
		ch.BlockIndexAccess.Unlock()
		if er != nil {
			fatal("base block", h, "rejected by CheckBlock:", er)
		}
		if er = ch.AcceptBlock(bl); er != nil {
			fatal("base block", h, "rejected by AcceptBlock:", er)
		}
		if h == 100 {
			fork = parent
		}
		parent = bl.Hash.Hash
		if h == 50 {
			w.midHash = parent
		}
		if h == 105 {
			w.blk2Hash = parent
		}
		if h == 106 {
			w.blk4Hash = parent
		}
	}
	// the dead side branch: two valid blocks on top of block 99, delivered after the active chain had passed them
	sp := fork
	for i, h := range []uint32{100, 101} {
		cb := w.coinbase(h, nil)
		raw := w.mine(sp, blockTime0+h*blockStep+7, []*btc.Tx{cb})
		bl, _ := btc.NewBlock(raw)
		ch.BlockIndexAccess.Lock()
		_, _, er := ch.CheckBlock(bl)
		ch.BlockIndexAccess.Unlock()
		if er == nil {
			er = ch.AcceptBlock(bl)
		}
		if er != nil {
			fatal("side block", h, "rejected:", er)
		}
		sp = bl.Hash.Hash
		if i == 0 {
			w.side1Hash = sp
		} else {
			w.side2Hash = sp
		}
	}
	ch.Blocks.Idle()
	w.baseTip = ch.LastBlock()
	if w.baseTip.Height != baseBlocks {
		fatal("base chain height", w.baseTip.Height)
	}
	w.baseHeight = baseBlocks
	w.tipHash = parent
	w.baseIdx = map[btc.BIDX]bool{}
	for k := range ch.BlockIndex {
		w.baseIdx[k] = true
	}
	// the next blocks, known to the peer only
	w.tx1 = w.spend(cbs[1], 20000)
	w.cb1 = w.coinbase(baseBlocks+1, []*btc.Tx{w.tx1})
	w.b1 = w.mine(parent, blockTime0+(baseBlocks+1)*blockStep, []*btc.Tx{w.cb1, w.tx1})
	w.b1Hash = btc.NewSha2Hash(w.b1[:80]).Hash
	cb2 := w.coinbase(baseBlocks+2, nil)
	w.cb2 = cb2
	w.b2 = w.mine(w.b1Hash, blockTime0+(baseBlocks+2)*blockStep, []*btc.Tx{cb2})
	w.b2Hash = btc.NewSha2Hash(w.b2[:80]).Hash
	w.unkHash[0] = btc.Sha2Sum([]byte("verif-c18-unknown-0"))
	w.unkHash[1] = btc.Sha2Sum([]byte("verif-c18-unknown-1"))
	la, lb, sid := w.collidingOrphans()
	for i, lt := range []uint32{la, lb} {
		raw := w.orphanRaw(lt)
		tx, n := btc.NewTx(raw)
		if tx == nil || n != len(raw) {
			fatal("orphan tx does not parse")
		}
		tx.SetHash(raw)
		w.orph[i] = tx
	}
	w.orphSid = sid

	// --- rest of host_init() / main()
	common.Last.Block = ch.LastBlock()
	common.Last.Time = time.Unix(int64(common.Last.Block.Timestamp()), 0)
	common.UpdateScriptFlags(0)
	c.LastTrustedBlock = common.LastTrustedBTCBlock
	common.Reset()
	common.StartTime = time.Now()
	common.RecalcAverageBlockSize()
	peersdb.Services = common.Services
	var er error
	if peersdb.PeerDB, er = qdb.NewDB(dir+string(os.PathSeparator)+"peers3", true); er != nil {
		fatal("peersdb", er)
	}
	w.peersNormal = peersdb.PeerDB
	txpool.InitMempool()
	common.BlockChainSynchronized.Store(true)
	network.FriendsAccess.Lock()
	network.AuthPubkeys = [][]byte{w.pub} // the harness peer's key is an authorised friend key
	network.FriendsAccess.Unlock()
	w.resetNode()

	// --- the part of the main loop that serves the network threads
	w.syncCh = make(chan chan struct{})
	go func() {
		for {
			select {
			case ntx := <-network.NetTxs:
				func() {
					defer func() {
						if r := recover(); r != nil {
							buf := make([]byte, 16384)
							buf = buf[:runtime.Stack(buf, false)]
							w.mainPanic.Store(fmt.Sprint("panic in the main thread (txpool.HandleNetTx): ", r, "\n", string(buf)))
						}
					}()
					txpool.HandleNetTx(ntx)
				}()
			case <-network.NetBlocks:
				// HandleNetBlock lives in package main; the block has passed the network handler, which is all C18 covers
			case ack := <-w.syncCh:
				close(ack)
			}
		}
	}()
	return w
}

// asyncIdle waits until everything the handlers queued for the main thread has been consumed and handled.
func (w *World) asyncIdle(d time.Duration) bool {
	end := time.Now().Add(d)
	for {
		if len(network.NetTxs)+len(network.NetBlocks) == 0 {
			ack := make(chan struct{})
			select {
			case w.syncCh <- ack: // the single consumer goroutine is between two items
				<-ack
				if len(network.NetTxs)+len(network.NetBlocks) == 0 {
					return true
				}
			case <-time.After(time.Until(end)):
				return false
			}
		}
		if time.Now().After(end) {
			return false
		}
		time.Sleep(100 * time.Microsecond)
	}
}

// resetNode puts the global state of the node back to "base chain, empty mempool, nothing in flight".
func (w *World) resetNode() {
	ch := w.ch
	// headers accepted during the session
	var del []*chain.BlockTreeNode
	ch.BlockIndexAccess.Lock()
	for k, n := range ch.BlockIndex {
		if !w.baseIdx[k] && n.Parent != nil && w.baseIdx[n.Parent.BlockHash.BIdx()] {
			del = append(del, n)
		}
	}
	ch.BlockIndexAccess.Unlock()
	for _, n := range del {
		ch.DeleteBranch(n, nil)
	}
	network.MutexRcv.Lock()
	network.ReceivedBlocks = make(map[btc.BIDX]*network.OneReceivedBlock, 256)
	for k, v := range ch.BlockIndex {
		network.ReceivedBlocks[k] = &network.OneReceivedBlock{TmStart: time.Unix(int64(v.Timestamp()), 0)}
	}
	network.BlocksToGet = make(map[btc.BIDX]*network.OneBlockToGet)
	network.BlocksToGetFailed = make(map[btc.BIDX]struct{})
	network.IndexToBlocksToGet = make(map[uint32][]btc.BIDX)
	network.LowestIndexToBlocksToGet.Store(0)
	network.DiscardedBlocks = make(map[btc.BIDX]bool)
	network.LastCommitedHeader = w.baseTip
	network.MutexRcv.Unlock()
	network.CachedBlocksMutex.Lock()
	network.CachedBlocksIdx = make(map[uint32][]*network.BlockRcvd)
	network.CachedBlocksBytes.Store(0)
	network.CachedBlocksMutex.Unlock()
	if w.syncCh != nil {
		w.asyncIdle(5 * time.Second)
	}
	txpool.InitMempool()
	select {
	case <-txpool.GetMPInProgressTicket:
	default:
	}
}

// ---------------------------------------------------------------- observation

type lockProbe struct {
	name string
	try  func() bool // TryLock+Unlock, or nil
	live func()      // takes and releases the lock through an exported function
}

func (w *World) probes(c *network.OneConnection) []lockProbe {
	tl := func(m *sync.Mutex) func() bool {
		return func() bool {
			if m.TryLock() {
				m.Unlock()
				return true
			}
			return false
		}
	}
	return []lockProbe{
		{name: "c.Mutex", try: tl(&c.Mutex)},
		{name: "network.Mutex_net", try: tl(&network.Mutex_net)},
		{name: "network.MutexRcv", try: tl(&network.MutexRcv)},
		{name: "network.CachedBlocksMutex", try: tl(&network.CachedBlocksMutex)},
		{name: "network.HammeringMutex", try: tl(&network.HammeringMutex)},
		{name: "network.ExternalIpMutex", try: tl(&network.ExternalIpMutex)},
		{name: "network.FriendsAccess", try: tl(&network.FriendsAccess)},
		{name: "network.CompactBlocksMutex", try: tl(&network.CompactBlocksMutex)},
		{name: "txpool.TxMutex", try: tl(&txpool.TxMutex)},
		{name: "common.Last.Mutex", try: tl(&common.Last.Mutex)},
		{name: "common.CounterMutex", try: tl(&common.CounterMutex)},
		{name: "chain.BlockIndexAccess", try: tl(&w.ch.BlockIndexAccess)},
		{name: "common.mutex_cfg", live: func() { common.LockCfg(); common.UnlockCfg() }},
		{name: "common.bw_mutex", live: func() { common.LockBw(); common.UnlockBw() }},
		{name: "peersdb.peerdb_mutex", live: func() { peersdb.Lock(); peersdb.Unlock() }},
		{name: "chain.blockTreeAccess", live: func() { w.ch.LastBlock() }},
		{name: "chain.Blocks.mutex", live: func() { w.ch.Blocks.BlockGet(btc.NewUint256(w.tipHash[:])) }},
	}
}

// heldLocks returns the locks that stay taken for the whole patience period (a lock that a running goroutine
// takes for a moment is released within microseconds; a leaked one never is).
func heldLocks(pr []lockProbe, patience time.Duration) (held []string) {
	for _, p := range pr {
		ok := false
		if p.try != nil {
			end := time.Now().Add(patience)
			for i := 0; ; i++ {
				if p.try() {
					ok = true
					break
				}
				if time.Now().After(end) {
					break
				}
				if i < 50 {
					runtime.Gosched()
				} else {
					time.Sleep(500 * time.Microsecond)
				}
			}
		} else {
			done := make(chan struct{})
			go func() { p.live(); close(done) }()
			select {
			case <-done:
				ok = true
			case <-time.After(patience):
			}
		}
		if !ok {
			held = append(held, p.name)
		}
	}
	return
}

type State struct {
	Alive bool   `json:"alive"`
	Ver   bool   `json:"ver"`
	Score int    `json:"score"`
	Ban   bool   `json:"ban"`
	Cmpct int    `json:"cmpct"`
	Auth  bool   `json:"auth"`  // an xauth message was seen
	Authd bool   `json:"authd"` // ... and it authorised the peer
	AddrD bool   `json:"addrd"`
	Ahr   bool   `json:"ahr"`
	Bip   bool   `json:"bip"`
	Gd    bool   `json:"gd"` // B1 is in progress on this connection without a collector (requested with a plain getdata)
	H1    string `json:"h1"` // no | b2g | got
	H2    bool   `json:"h2"`
	Mp    bool   `json:"mp"`
	O1    bool   `json:"o1"` // the first / second colliding orphan is in the pool of rejected transactions
	O2    bool   `json:"o2"`
	Pf    bool   `json:"pf"` // the peers database is at its size limit
	Why   string `json:"why,omitempty"`
}

func (w *World) project(c *network.OneConnection, runExited bool) (st State) {
	c.Mutex.Lock()
	broken, ban, mis, why := network.VerifState(c)
	st.Alive = !broken && !runExited
	st.Ban, st.Score, st.Why = ban, mis, why
	st.Ver, st.Cmpct, st.Auth, st.Authd = c.X.VersionReceived, int(c.Node.SendCmpctVer), c.X.AuthMsgGot, c.X.Authorized
	st.AddrD, st.Ahr = c.X.GetAddrDone, c.X.AllHeadersReceived
	st.Bip = network.VerifCollectorPending(c, btc.NewUint256(w.b1Hash[:]).BIdx())
	_, inprog := c.GetBlockInProgress[btc.NewUint256(w.b1Hash[:]).BIdx()]
	st.Gd = inprog && !st.Bip
	c.Mutex.Unlock()
	i1, i2 := btc.NewUint256(w.b1Hash[:]).BIdx(), btc.NewUint256(w.b2Hash[:]).BIdx()
	network.MutexRcv.Lock()
	st.H1 = "no"
	if _, ok := network.BlocksToGet[i1]; ok {
		st.H1 = "b2g"
	} else if _, ok := network.ReceivedBlocks[i1]; ok {
		st.H1 = "got"
	}
	_, st.H2 = network.BlocksToGet[i2]
	network.MutexRcv.Unlock()
	txpool.TxMutex.Lock()
	_, st.Mp = txpool.TransactionsToSend[w.tx1.Hash.BIdx()]
	_, st.O1 = txpool.TransactionsRejected[w.orph[0].Hash.BIdx()]
	_, st.O2 = txpool.TransactionsRejected[w.orph[1].Hash.BIdx()]
	st.Pf = peersdb.PeerDB.Count() >= peersdb.MaxPeersInDB+peersdb.MaxPeersDeviation
	txpool.TxMutex.Unlock()
	return
}

func isEnv(cmd string) bool {
	return cmd == "idle" || cmd == "peersfull" || cmd == "Bblock" || cmd == "Bheaders"
}

// usePeersDB switches between the normal (nearly empty) peers database and one filled to its size limit.
func (w *World) usePeersDB(full bool) {
	if !full && peersdb.PeerDB == w.peersNormal {
		return
	}
	peersdb.Lock()
	defer peersdb.Unlock()
	if !full {
		peersdb.PeerDB = w.peersNormal
		return
	}
	if w.peersFull == nil {
		db, er := qdb.NewDB(w.dir+string(os.PathSeparator)+"peersfull", true)
		if er != nil {
			fatal("peersfull", er)
		}
		now := uint32(time.Now().Unix())
		for i := uint32(0); db.Count() < peersdb.MaxPeersInDB+peersdb.MaxPeersDeviation; i++ {
			ip := [4]byte{byte(60 + i>>16), byte(i >> 8), byte(i), 77}
			p := peersdb.NewPeer(append(le32(now-3600), netaddr(btc.SERVICE_NETWORK|btc.SERVICE_SEGWIT, ip, 8333)...))
			db.Put(qdb.KeyType(p.UniqID()), p.Bytes())
		}
		w.peersFull = db
	}
	peersdb.PeerDB = w.peersFull
}

// peerConn: a second peer on its own connection (only ever sends valid messages)
type peerConn struct {
	c       *network.OneConnection
	end     net.Conn
	runDone chan struct{}
	pending bool // the first four bytes of the next frame are already sent
}

func (w *World) newPeerB() *peerConn {
	n := atomic.AddUint32(&sessCounter, 1)
	ad, er := peersdb.NewIncommingConnection(fmt.Sprintf("11.%d.%d.%d:8333", 1+(n>>16)&0x7f, (n>>8)&0xff, n&0xff), true)
	if er != nil || ad == nil {
		return nil
	}
	p := &peerConn{c: network.NewConnection(ad), runDone: make(chan struct{})}
	nodeEnd, peerEnd := net.Pipe()
	p.end = peerEnd
	p.c.Conn = nodeEnd
	p.c.X.Incomming = true
	p.c.X.ConnectedAt = time.Now()
	network.VerifAddToList(p.c)
	go func() {
		defer close(p.runDone)
		p.c.Run()
	}()
	go func() { // drain what the node sends to it
		b := make([]byte, 1<<16)
		for {
			if _, e := peerEnd.Read(b); e != nil {
				return
			}
		}
	}()
	return p
}

// deliver sends one frame and returns once the node is back in FetchMessage on that connection.
func (p *peerConn) deliver(f []byte, lim time.Duration) string {
	if p.pending {
		f = f[4:]
	}
	if st := send(p.end, f, p.runDone, lim); st != "" {
		return st
	}
	p.pending = true
	return send(p.end, common.Magic[:], p.runDone, lim)
}

// waitTicks returns when OneConnection.Tick has run n more times ("" ok, "timeout", "closed").
func (w *World) waitTicks(c *network.OneConnection, n uint64, runDone <-chan struct{}, lim time.Duration) string {
	read := func() (uint64, bool) {
		if c.Mutex.TryLock() {
			t := c.X.Ticks
			c.Mutex.Unlock()
			return t, true
		}
		return 0, false
	}
	end := time.Now().Add(lim)
	var start uint64
	have := false
	for time.Now().Before(end) {
		select {
		case <-runDone:
			return "closed"
		default:
		}
		if t, ok := read(); ok {
			if !have {
				start, have = t, true
			} else if t >= start+n {
				return ""
			}
		}
		time.Sleep(5 * time.Millisecond)
	}
	return "timeout"
}

// ---------------------------------------------------------------- one session

type StepRes struct {
	Cls   string   `json:"cls"`
	Out   string   `json:"out"`            // ok | penalised | disconnected | skipped
	Viol  string   `json:"viol,omitempty"` // panic | lockheld | timeout | mainpanic | unclean-exit
	What  string   `json:"what,omitempty"`
	Obs   string   `json:"obs,omitempty"`
	Held  []string `json:"held,omitempty"`
	St    *State   `json:"st,omitempty"`
	Ms    float64  `json:"ms"`
	Bytes string   `json:"bytes,omitempty"` // the framed message, hex (only kept when something was wrong or on request)
	Len   int      `json:"len"`
	Rep   []string `json:"rep,omitempty"` // commands the node sent since the previous step
}

type SessRes struct {
	ID     int       `json:"id"`
	Steps  []StepRes `json:"steps"`
	Viol   string    `json:"viol,omitempty"` // first violation kind
	At     int       `json:"at,omitempty"`   // 1-based index of the step that violated (len+1: teardown)
	What   string    `json:"what,omitempty"`
	Note   string    `json:"note,omitempty"`
	Retire bool      `json:"retire,omitempty"` // the worker process ends after this session
}

type Limits struct {
	Msg      time.Duration // a handler that has not returned after this long is wedged
	Patience time.Duration // a lock that cannot be taken for this long is leaked
	SelfTest string        // observer self-test: inject "lock" | "panic" | "hang" before the second message
}

var sessCounter uint32

type drain struct {
	mu      sync.Mutex
	buf     []byte
	nonce   []byte
	cmds    []string
	nonceCh chan struct{}
}

func (d *drain) run(r net.Conn) {
	tmp := make([]byte, 1<<16)
	for {
		n, e := r.Read(tmp)
		if n > 0 {
			d.mu.Lock()
			d.buf = append(d.buf, tmp[:n]...)
			for len(d.buf) >= 24 {
				l := int(binary.LittleEndian.Uint32(d.buf[16:20]) & 0x7fffffff)
				if len(d.buf) < 24+l {
					break
				}
				cmd := strings.TrimRight(string(d.buf[4:16]), "\x00")
				if len(d.cmds) < 64 {
					d.cmds = append(d.cmds, cmd)
				}
				if cmd == "version" && l >= 80 && d.nonce == nil {
					d.nonce = append([]byte(nil), d.buf[24+72:24+80]...)
					close(d.nonceCh)
				}
				d.buf = d.buf[24+l:]
			}
			d.mu.Unlock()
		}
		if e != nil {
			return
		}
	}
}

func frame(cmd string, pl []byte) []byte {
	b := make([]byte, 24+len(pl))
	copy(b[0:4], common.Magic[:])
	copy(b[4:16], cmd)
	binary.LittleEndian.PutUint32(b[16:20], uint32(len(pl)))
	sh := btc.Sha2Sum(pl)
	copy(b[20:24], sh[:4])
	copy(b[24:], pl)
	return b
}

// concretise returns the framed bytes of one message of the session.
func (w *World) concretise(cl Class, nodeNonce []byte, rnd *rand.Rand) ([]byte, error) {
	if cl.Cmd == "frame" {
		pl := join(w.valid("frame", nil))
		f := frame("ping", pl)
		switch cl.K {
		case "badmagic":
			for i := 0; i < 4; i++ {
				f[i] ^= 0xff
			}
		case "badsum":
			f[20] ^= 0x55
		case "oversize":
			binary.LittleEndian.PutUint32(f[16:20], 1025)
			f = f[:24]
		case "encflag":
			binary.LittleEndian.PutUint32(f[16:20], uint32(len(pl))|0x80000000)
		case "encflag0":
			binary.LittleEndian.PutUint32(f[16:20], 0x80000000)
			f = f[:24]
		case "lenover1":
			binary.LittleEndian.PutUint32(f[16:20], uint32(len(pl))+1)
		case "cmdfull":
			copy(f[4:16], "pingpingping")
		default:
			return nil, errors.New("unknown frame class " + cl.K)
		}
		return f, nil
	}
	segs := w.valid(cl.Cmd, nodeNonce)
	pl, ok := perturb(segs, cl.K, cl.F, rnd)
	if !ok {
		return nil, fmt.Errorf("class %s does not exist for the grammar of %s", cl.K, cl.Cmd)
	}
	name := wireName(cl.Cmd)
	return frame(name, pl), nil
}

var errClosed = errors.New("closed")

// send writes b to the peer end of the pipe; it returns nil when the node consumed every byte,
// errClosed when the node closed the connection, "exit" when Run() returned without closing, "timeout" otherwise.
func send(p net.Conn, b []byte, runDone <-chan struct{}, lim time.Duration) string {
	if len(b) == 0 {
		return ""
	}
	res := make(chan error, 1)
	p.SetWriteDeadline(time.Now().Add(lim))
	go func() {
		_, e := p.Write(b)
		res <- e
	}()
	select {
	case e := <-res:
		return classify(e)
	case <-runDone:
		// Run() is gone: either it closed the pipe (the write fails at once) or it left it open
		select {
		case e := <-res:
			return classify(e)
		case <-time.After(300 * time.Millisecond):
			p.SetWriteDeadline(time.Now())
			<-res
			return "exit"
		}
	}
}

func classify(e error) string {
	if e == nil {
		return ""
	}
	if errors.Is(e, io.ErrClosedPipe) {
		return "closed"
	}
	if ne, ok := e.(net.Error); ok && ne.Timeout() {
		return "timeout"
	}
	return "closed"
}

func allStacks() string {
	buf := make([]byte, 1<<20)
	buf = buf[:runtime.Stack(buf, true)]
	var keep []string
	for _, g := range strings.Split(string(buf), "\n\n") {
		if strings.Contains(g, "client/network") || strings.Contains(g, "client/txpool") {
			if len(g) > 2500 {
				g = g[:2500]
			}
			keep = append(keep, g)
		}
	}
	return strings.Join(keep, "\n\n")
}

func (w *World) runSession(id int, msgs []Class, seed int64, lim Limits, keepBytes bool) (res SessRes) {
	res.ID = id
	rnd := rand.New(rand.NewSource(seed*1000003 + int64(id)))
	n := atomic.AddUint32(&sessCounter, 1)
	ip := fmt.Sprintf("10.%d.%d.%d:8333", 1+(n>>16)&0x7f, (n>>8)&0xff, n&0xff)
	ad, er := peersdb.NewIncommingConnection(ip, true)
	if er != nil || ad == nil {
		res.Note = fmt.Sprint("harness: NewIncommingConnection: ", er)
		return
	}
	var panicMsg atomic.Value
	verif.Sink = func(seq uint64, name string, kv []interface{}) {
		if name == "net_panic" {
			s := ""
			for i := 0; i+1 < len(kv); i += 2 {
				s += fmt.Sprint(kv[i], "=", kv[i+1], " ")
			}
			panicMsg.Store(s)
		}
	}
	defer func() { verif.Sink = nil }()

	c := network.NewConnection(ad)
	nodeEnd, peerEnd := net.Pipe()
	c.Conn = nodeEnd
	c.X.Incomming = true
	c.X.ConnectedAt = time.Now()
	network.VerifAddToList(c)
	runDone := make(chan struct{})
	go func() {
		defer close(runDone)
		c.Run()
	}()
	dr := &drain{nonceCh: make(chan struct{})}
	go dr.run(peerEnd)
	pr := w.probes(c)

	fail := func(i int, kind, what string) {
		if res.Viol == "" {
			res.Viol, res.At, res.What = kind, i+1, what
		}
	}
	runExited := func() bool {
		select {
		case <-runDone:
			return true
		default:
			return false
		}
	}

	var peerB *peerConn
	defer func() {
		if res.Viol == "" { // (after a violation this process ends; the peers-db mutex may be the very lock that is stuck)
			w.usePeersDB(false)
		}
		if peerB != nil {
			peerB.end.Close()
			select {
			case <-peerB.runDone:
			case <-time.After(2 * time.Second):
			}
			if res.Viol == "" {
				network.VerifDelFromList(peerB.c)
			}
		}
	}()
	var pendingMagic []byte // first four bytes of the next frame, already sent as the barrier of the previous message
	dead := false
	prevScore := 0
	for i, cl := range msgs {
		sr := StepRes{Cls: cl.String()}
		if dead {
			sr.Out = "skipped"
			res.Steps = append(res.Steps, sr)
			continue
		}
		var nonce []byte
		if cl.Cmd == "xauth" {
			select {
			case <-dr.nonceCh:
			case <-time.After(50 * time.Millisecond):
			}
			dr.mu.Lock()
			nonce = dr.nonce
			dr.mu.Unlock()
			if nonce == nil {
				nonce = network.VerifNonce()
			}
		}
		var f []byte
		var er error
		if !isEnv(cl.Cmd) {
			f, er = w.concretise(cl, nonce, rnd)
		}
		if er != nil {
			res.Note = "harness: " + er.Error()
			sr.Out = "skipped"
			res.Steps = append(res.Steps, sr)
			dead = true
			continue
		}
		if i == 1 {
			switch lim.SelfTest { // the observer must notice each of these
			case "lock":
				network.MutexRcv.Lock()
			case "panic":
				verif.Event("net_panic", "err", "injected by the observer self-test")
			case "hang":
				c.Mutex.Lock()
			}
		}
		t0 := time.Now()
		st := ""
		if cl.Cmd == "idle" {
			// the peer stays silent until the node's own tick has run (twice): timers, getheaders / getdata requests
			st = w.waitTicks(c, 2, runDone, lim.Msg)
		} else if cl.Cmd == "peersfull" {
			w.usePeersDB(true) // the environment: the peers database has reached its size limit
		} else if cl.Cmd == "Bblock" || cl.Cmd == "Bheaders" {
			// another peer, on its own connection, delivers block B1 / announces the headers of B1 and B2
			if peerB == nil {
				if peerB = w.newPeerB(); peerB != nil {
					pr = append(pr, lockProbe{name: "peerB.c.Mutex", try: func() bool {
						if peerB.c.Mutex.TryLock() {
							peerB.c.Mutex.Unlock()
							return true
						}
						return false
					}})
					vs := w.valid("version", nil)
					vs[5] = segF([]byte{0x50, 0x45, 0x45, 0x52, 0x2d, 0x42, 0x21, 0x21}) // its own nonce
					if bs := peerB.deliver(frame("version", join(vs)), lim.Msg); bs != "" {
						res.Note = "harness: peer B could not complete its handshake: " + bs
					}
				}
			}
			if peerB != nil {
				what := map[string]string{"Bblock": "block", "Bheaders": "headers"}[cl.Cmd]
				if bs := peerB.deliver(frame(what, join(w.valid(what, nil))), lim.Msg); bs == "timeout" {
					st = "timeout" // (that peer's handler did not return)
				}
			}
		} else {
			sr.Len = len(f) - 24
			if keepBytes {
				sr.Bytes = hx(f)
			}
			body := f
			if pendingMagic != nil {
				// the barrier of the previous message already carried our first four bytes
				body = f[4:]
			}
			st = send(peerEnd, body, runDone, lim.Msg)
		}
		// barrier: the first four bytes of the next frame are consumed only after this handler returned
		var next []byte
		if st == "" && !isEnv(cl.Cmd) {
			next = append([]byte(nil), common.Magic[:]...)
			nx := i + 1
			for nx < len(msgs) && isEnv(msgs[nx].Cmd) {
				nx++
			}
			if nx < len(msgs) && msgs[nx].Cmd == "frame" && msgs[nx].K == "badmagic" {
				for k := range next {
					next[k] ^= 0xff
				}
			}
			st = send(peerEnd, next, runDone, lim.Msg)
			pendingMagic = next
		}
		sr.Ms = float64(time.Since(t0).Microseconds()) / 1000
		if pm := panicMsg.Load(); pm != nil {
			sr.Viol, sr.What = "panic", pm.(string)
		} else if st == "timeout" {
			sr.Viol = "timeout"
			sr.What = fmt.Sprintf("handler did not return within %v; goroutines:\n%s", lim.Msg, allStacks())
		} else if st == "exit" {
			// not one of the outcomes C18 forbids, but worth knowing: the socket, the writer goroutine and the 16 MB
			// send buffer of this connection are never released
			sr.Obs = "unclean-exit: Run() returned without its teardown (connection not closed)"
			res.Note = sr.Obs
		}
		if !w.asyncIdle(lim.Msg) {
			if sr.Viol == "" {
				sr.Viol, sr.What = "timeout", "the main-thread queue (NetTxs/NetBlocks) was not drained: "+allStacks()
			}
		}
		if mp := w.mainPanic.Load(); mp != nil && mp.(string) != "" {
			if sr.Viol == "" {
				sr.Viol, sr.What = "mainpanic", mp.(string)
			}
			w.mainPanic.Store("")
		}
		// locks: every mutex of the held-set universe must be free once the handler has returned
		pat := lim.Patience
		if sr.Viol == "panic" || sr.Viol == "timeout" {
			pat = lim.Patience / 4
		}
		if held := heldLocks(pr, pat); len(held) > 0 {
			sr.Held = held
			if sr.Viol == "" {
				sr.Viol = "lockheld"
				sr.What = "still locked after the handler returned: " + strings.Join(held, ", ")
			} else {
				sr.What = "locks left held: " + strings.Join(held, ", ") + "; " + sr.What
			}
		}
		dr.mu.Lock()
		sr.Rep, dr.cmds = dr.cmds, nil
		dr.mu.Unlock()
		if len(sr.Held) == 0 {
			s := w.project(c, runExited())
			sr.St = &s
			switch {
			case !s.Alive || st == "closed" || st == "exit":
				sr.Out = "disconnected"
			case s.Score > prevScore:
				sr.Out = "penalised"
			default:
				sr.Out = "ok"
			}
			prevScore = s.Score
		} else {
			sr.Out = "disconnected"
		}
		if st != "" || sr.Viol != "" {
			dead = true
		}
		if sr.Viol != "" {
			sr.Bytes = hx(f)
			fail(i, sr.Viol, sr.What)
		}
		res.Steps = append(res.Steps, sr)
	}

	// teardown: the peer goes away; Run() must come back and leave nothing locked
	peerEnd.Close()
	if res.Viol == "" { // (after a violation the process is discarded anyway)
		select {
		case <-runDone:
		case <-time.After(lim.Msg):
			fail(len(msgs), "timeout", "Run() did not return after the peer closed the connection; goroutines:\n"+allStacks())
		}
	}
	if res.Viol == "" {
		if pm := panicMsg.Load(); pm != nil {
			fail(len(msgs), "panic", pm.(string))
		} else if held := heldLocks(pr, lim.Patience); len(held) > 0 {
			fail(len(msgs), "lockheld", "still locked after Run() returned: "+strings.Join(held, ", "))
		}
	}
	nodeEnd.Close()
	if res.Viol == "" {
		network.VerifDelFromList(c)
		w.resetNode()
	}
	return
}
