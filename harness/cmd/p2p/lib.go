// lib.go: the library entry points that parse untrusted data (lib/btc, lib/script, lib/secp256k1, client/peersdb),
// driven directly with the perturbation classes of the grammars and with seeded byte mutations of valid samples.
// Requirement: no panic escapes, the call returns within a time bound, the process survives.
package main

import (
	"encoding/json"
	"flag"
	"fmt"
	"math/rand"
	"os"
	"runtime"
	"sort"
	"strings"
	"sync"
	"time"

	"github.com/piotrnar/gocoin/client/peersdb"
	"github.com/piotrnar/gocoin/lib/btc"
	"github.com/piotrnar/gocoin/lib/script"
	"github.com/piotrnar/gocoin/lib/secp256k1"

	"verifharness/vio"
)

type target struct {
	name    string
	samples func(w *World) [][]Seg  // valid inputs as grammar segments (perturbation classes apply) ...
	raw     func(w *World) [][]byte // ... or as plain byte strings (mutations only)
	call    func(w *World, b []byte)
	noPref  bool // the samples are an enumeration already: no prefixes of them
}

func one(s []Seg) [][]Seg { return [][]Seg{s} }

func scriptSamples(w *World) [][]byte {
	ms := append([]byte{0x52, 0x21}, w.pub...)
	ms = append(append(ms, 0x21), w.pub...)
	ms = append(ms, 0x52, 0xae)
	return [][]byte{w.p2pkh, w.wpk, w.cb1.TxOut[1].Pk_script, ms,
		{0x4c, 0x03, 1, 2, 3, 0x4d, 0x02, 0x00, 9, 9, 0x4e, 0x01, 0, 0, 0, 7, 0x63, 0x51, 0x67, 0x52, 0x68, 0x87},
		append([]byte{0x51, 0x20}, w.pub[1:]...), append(append([]byte{0xa9, 0x14}, w.p2pkh[3:23]...), 0x87)}
}

func sigSamples(w *World) [][]byte {
	return [][]byte{w.tx1.SegWit[0][0], w.tx1.SegWit[0][0][:len(w.tx1.SegWit[0][0])-1]}
}

var targets = []target{
	{name: "btc.NewTx", samples: func(w *World) [][]Seg { return [][]Seg{txSegs(w.tx1), txSegs(w.cb1)} },
		call: func(w *World, b []byte) {
			tx, n := btc.NewTx(b)
			if tx != nil && n == len(b) && len(tx.TxIn) > 0 { // the checks ParseTxNet makes before it goes on
				// what the callers of NewTx do next with a transaction that "parsed"
				tx.SetHash(b[:n])
				tx.CheckTransaction()
				tx.GetLegacySigOpCount()
				tx.IsFinal(100, 100)
				tx.ContainsOrdFile(true)
				tx.WTxID()
				tx.Weight()
				for i := range tx.TxIn {
					tx.CountWitnessSigOps(i, w.wpk)
				}
			}
		}},
	{name: "btc.TxSize", samples: func(w *World) [][]Seg { return [][]Seg{txSegs(w.tx1), txSegs(w.cb1)} },
		call: func(w *World, b []byte) {
			if n := btc.TxSize(b); n < 0 {
				panic("TxSize negative")
			}
		}},
	{name: "btc.NewBlock+BuildTxList", samples: func(w *World) [][]Seg { return one(w.valid("block", nil)) },
		call: func(w *World, b []byte) {
			bl, er := btc.NewBlock(b)
			if er != nil || bl == nil {
				return
			}
			if bl.BuildTxList() == nil {
				bl.MerkleRootMatch()
				bl.GetUserInfo()
				btc.GetWitnessMerkle(bl.Txs)
			}
			bl2, _ := btc.NewBlock(b)
			if bl2 != nil {
				bl2.BuildTxListExt(false)
			}
		}},
	{name: "header:btc.NewBlock+PreCheckBlock", samples: func(w *World) [][]Seg { return one([]Seg{segF(w.b1[:80])}) },
		call: func(w *World, b []byte) {
			bl, er := btc.NewBlock(b)
			if er != nil || bl == nil {
				return
			}
			bl.Version()
			bl.BlockTime()
			bl.Bits()
			w.ch.BlockIndexAccess.Lock()
			w.ch.PreCheckBlock(bl)
			w.ch.BlockIndexAccess.Unlock()
		}},
	{name: "chain.PostCheckBlock", samples: func(w *World) [][]Seg { return one(w.valid("block", nil)) },
		call: func(w *World, b []byte) {
			if len(b) < 80 {
				return
			}
			bl, er := btc.NewBlock(b)
			if er != nil || bl == nil {
				return
			}
			bl.Height = w.baseHeight + 1
			w.ch.PostCheckBlock(bl)
		}},
	{name: "script.VerifyTxScript(scriptSig)", raw: func(w *World) [][]byte { return append(scriptSamples(w), w.tx1.SegWit[0][0]) },
		call: func(w *World, b []byte) {
			tx, _ := btc.NewTx(w.tx1.Raw)
			tx.SetHash(w.tx1.Raw)
			tx.TxIn[0].ScriptSig = b
			tx.AllocVerVars()
			tx.Spent_outputs = []*btc.TxOut{w.cb1.TxOut[0]}
			script.VerifyTxScript(w.wpk, &script.SigChecker{Tx: tx, Idx: 0, Amount: 50e8}, script.STANDARD_VERIFY_FLAGS)
			script.VerifyTxScript(w.p2pkh, &script.SigChecker{Tx: tx, Idx: 0, Amount: 50e8}, script.VER_P2SH)
		}},
	{name: "script.VerifyTxScript(pkScript)", raw: scriptSamples,
		call: func(w *World, b []byte) {
			tx, _ := btc.NewTx(w.tx1.Raw)
			tx.SetHash(w.tx1.Raw)
			tx.AllocVerVars()
			tx.Spent_outputs = []*btc.TxOut{{Pk_script: b, Value: 50e8}}
			script.VerifyTxScript(b, &script.SigChecker{Tx: tx, Idx: 0, Amount: 50e8}, script.STANDARD_VERIFY_FLAGS)
			script.VerifyTxScript(b, &script.SigChecker{Tx: tx, Idx: 0, Amount: 50e8}, 0)
		}},
	{name: "script.VerifyTxScript(witness)", raw: func(w *World) [][]byte {
		return [][]byte{join(txSegs(w.tx1)[15:20])}
	},
		call: func(w *World, b []byte) {
			// b replaces the witness section of tx1 (count + items)
			segs := txSegs(w.tx1)
			raw := append(append(join(segs[:15]), b...), join(segs[20:])...)
			tx, n := btc.NewTx(raw)
			if tx == nil || n != len(raw) || len(tx.TxIn) != 1 || tx.TxIn[0] == nil {
				return
			}
			tx.SetHash(raw)
			tx.AllocVerVars()
			tx.Spent_outputs = []*btc.TxOut{w.cb1.TxOut[0]}
			script.VerifyTxScript(w.wpk, &script.SigChecker{Tx: tx, Idx: 0, Amount: 50e8}, script.STANDARD_VERIFY_FLAGS)
			tr := append([]byte{0x51, 0x20}, w.pub[1:]...)
			tx.Spent_outputs = []*btc.TxOut{{Pk_script: tr, Value: 50e8}}
			script.VerifyTxScript(tr, &script.SigChecker{Tx: tx, Idx: 0, Amount: 50e8}, script.STANDARD_VERIFY_FLAGS)
		}},
	{name: "script.VerifyTxScript(witness shapes)", raw: witnessShapes, call: runWitnessShape, noPref: true},
	{name: "script helpers", raw: scriptSamples,
		call: func(w *World, b []byte) {
			btc.GetSigOpCount(b, true)
			btc.GetSigOpCount(b, false)
			btc.GetP2SHSigOpCount(b)
			btc.IsPushOnly(b)
			btc.IsWitnessProgram(b)
			btc.ScriptToText(b)
			btc.NewAddrFromPkScript(b, true)
			btc.NewMultiSigFromScript(b)
			btc.NewMultiSigFromP2SH(b)
			script.IsP2KH(b)
			script.IsP2SH(b)
			script.IsP2WPKH(b)
			script.IsP2WSH(b)
			script.IsP2TAP(b)
			script.IsP2PK(b)
			script.IsUnspendable(b)
			c := script.CompressScript(b) // DecompressScript itself only ever sees what CompressScript wrote into the node's own database
			if c != nil {
				script.DecompressScript(c)
			}
			for pc := 0; pc < len(b); {
				_, _, n, e := btc.GetOpcode(b[pc:])
				if e != nil || n <= 0 {
					break
				}
				pc += n
			}
		}},
	{name: "signature parsers", raw: sigSamples,
		call: func(w *World, b []byte) {
			btc.NewSignature(b)
			var s secp256k1.Signature
			s.ParseBytes(b)
			script.IsValidSignatureEncoding(b)
			script.IsDefinedHashtypeSignature(b)
			script.IsLowS(b)
			script.CheckSignatureEncoding(b, script.STANDARD_VERIFY_FLAGS)
			h := btc.Sha2Sum([]byte("m"))
			btc.EcdsaVerify(w.pub, b, h[:])
			if len(b) >= 64 {
				btc.SchnorrVerify(w.pub[1:], b[:64], h[:])
			}
		}},
	{name: "public key parsers", raw: func(w *World) [][]byte {
		return [][]byte{w.pub, btc.PublicFromPrivate(w.priv, false), w.pub[1:]}
	},
		call: func(w *World, b []byte) {
			btc.NewPublicKey(b)
			var xy secp256k1.XY
			xy.ParsePubkey(b)
			if len(b) == 32 { // its callers check the length
				xy.ParseXOnlyPubkey(b)
			}
			script.IsCompressedOrUncompressedPubKey(b)
			script.IsCompressedPubKey(b)
			script.CheckPubKeyEncoding(b, script.STANDARD_VERIFY_FLAGS, script.SIGVERSION_WITNESS_V0)
			h := btc.Sha2Sum([]byte("m"))
			btc.EcdsaVerify(b, w.tx1.SegWit[0][0], h[:])
			btc.NewAddrFromPubkey(b, 0)
			var out [33]byte
			secp256k1.Multiply(b, w.priv, out[:])
		}},
	{name: "btc.NewAddrFromString", raw: func(w *World) [][]byte {
		a := btc.NewAddrFromPubkey(w.pub, 0x6f)
		h := btc.Rimp160AfterSha256(w.pub)
		return [][]byte{[]byte(a.String()), []byte("bc1qw508d6qejxtdg4y5r3zarvary0c5xw7kv8f3t4"),
			[]byte("bc1p0xlxvlhemja6c4dqv22uapctqupfhlxm9h8z3k2e72q4k9hcz7vqzk5jj0"), []byte("3J98t1WpEZ73CNmQviecrnyiWrnqRhWNLy"),
			[]byte(btc.Encodeb58(append([]byte{5}, h[:]...)))}
	},
		call: func(w *World, b []byte) {
			btc.NewAddrFromString(string(b))
			btc.Decodeb58(string(b))
			btc.DecodeScript(string(b))
		}},
	{name: "CompactSize readers", raw: func(w *World) [][]byte {
		return [][]byte{{0x05}, {0xfd, 0x00, 0x01}, {0xfe, 1, 2, 3, 4}, {0xff, 1, 2, 3, 4, 5, 6, 7, 8}}
	},
		call: func(w *World, b []byte) {
			btc.VLen(b)
			btc.VULe(b)
			btc.ReadVLen(strings.NewReader(string(b)))
		}},
	{name: "peersdb.NewPeer/btc.NewNetAddr", raw: func(w *World) [][]byte {
		a := append(le32(1700000000), netaddr(9, [4]byte{1, 2, 3, 4}, 8333)...)
		return [][]byte{a, append(append([]byte(nil), a...), 1, 3, 'a', 'b', 'c', 4, 1, 2, 3, 4)}
	},
		call: func(w *World, b []byte) {
			if len(b) >= 30 { // every caller in the tree checks this much (addr handler reads 30 bytes, the db stores what it wrote)
				peersdb.NewPeer(b)
			}
			if len(b) >= 26 {
				btc.NewNetAddr(b)
			}
		}},
}

// libCase deterministically produces input number k of a target: first every perturbation class of every sample,
// then seeded mutations of the samples.
func libCase(w *World, t *target, seed int64, k int) (data []byte, desc string) {
	rnd := rand.New(rand.NewSource(seed*7919 + int64(k)*104729 + int64(len(t.name))))
	var raws [][]byte
	if t.samples != nil {
		i := 0
		for si, s := range t.samples(w) {
			for _, kd := range classKinds(s) {
				if i == k {
					b, _ := perturb(s, kd.K, kd.F, rnd)
					return b, fmt.Sprintf("sample %d class %s@%d", si, kd.K, kd.F)
				}
				i++
			}
			raws = append(raws, join(s))
		}
		k -= i
	} else {
		raws = t.raw(w)
		if k < len(raws) {
			return raws[k], fmt.Sprintf("sample %d", k)
		}
		k -= len(raws)
		// every proper prefix of every sample (the first 96 bytes of it)
		for si, r := range raws {
			n := len(r)
			if n > 96 {
				n = 96
			}
			if t.noPref {
				n = 0
			}
			if k < n {
				return append([]byte(nil), r[:k]...), fmt.Sprintf("sample %d prefix %d", si, k)
			}
			k -= n
		}
	}
	b := append([]byte(nil), raws[k%len(raws)]...)
	nm := 1 + rnd.Intn(3)
	var ops []string
	for m := 0; m < nm; m++ {
		switch op := rnd.Intn(8); {
		case op == 0 && len(b) > 0: // truncate
			b = b[:rnd.Intn(len(b))]
			ops = append(ops, "trunc")
		case op == 1 && len(b) > 0: // bit flip
			i := rnd.Intn(len(b))
			b[i] ^= 1 << uint(rnd.Intn(8))
			ops = append(ops, fmt.Sprint("flip@", i))
		case op == 2 && len(b) > 0: // byte to a boundary value
			i := rnd.Intn(len(b))
			b[i] = []byte{0, 1, 0x4b, 0x4c, 0x4d, 0x4e, 0x7f, 0x80, 0xfc, 0xfd, 0xfe, 0xff}[rnd.Intn(12)]
			ops = append(ops, fmt.Sprint("set@", i))
		case op == 3: // insert
			i := rnd.Intn(len(b) + 1)
			ins := make([]byte, 1+rnd.Intn(9))
			rnd.Read(ins)
			if rnd.Intn(2) == 0 {
				ins[0] = []byte{0xfd, 0xfe, 0xff, 0x4c, 0x4d, 0x4e}[rnd.Intn(6)]
			}
			b = append(b[:i], append(ins, b[i:]...)...)
			ops = append(ops, fmt.Sprint("ins@", i))
		case op == 4 && len(b) > 1: // delete
			i := rnd.Intn(len(b))
			j := i + 1 + rnd.Intn(4)
			if j > len(b) {
				j = len(b)
			}
			b = append(b[:i], b[j:]...)
			ops = append(ops, fmt.Sprint("del@", i))
		case op == 5 && len(b) > 2: // duplicate a chunk
			i := rnd.Intn(len(b) - 1)
			j := i + 1 + rnd.Intn(len(b)-i-1)
			b = append(b[:j], append(append([]byte(nil), b[i:j]...), b[j:]...)...)
			ops = append(ops, fmt.Sprint("dup@", i))
		case op == 6 && len(b) > 8: // a huge CompactSize somewhere
			i := rnd.Intn(len(b) - 8)
			copy(b[i:], [][]byte{{0xff, 0xff, 0xff, 0xff, 0xff, 0xff, 0xff, 0xff, 0xff}, {0xfe, 0x00, 0x00, 0x00, 0x01}, {0xfd, 0xff, 0xff},
				{0xff, 0, 0, 0, 0, 0, 0, 0, 0x80}, {0xff, 0, 0, 0, 0, 0, 1, 0, 0}}[rnd.Intn(5)])
			ops = append(ops, fmt.Sprint("cs@", i))
		default: // random tail
			t := make([]byte, rnd.Intn(6))
			rnd.Read(t)
			b = append(b, t...)
			ops = append(ops, "tail")
		}
	}
	return b, "mutation " + strings.Join(ops, ",")
}

func classKinds(s []Seg) (out []Class) {
	rnd := rand.New(rand.NewSource(1))
	try := func(k string, f int) {
		if _, ok := perturb(s, k, f, rnd); ok {
			out = append(out, Class{"", k, f})
		}
	}
	try("valid", 0)
	try("empty", 0)
	try("trail", 0)
	try("min", 0)
	for f := 1; f <= len(s); f++ {
		try("trunc", f)
		try("into", f)
		for _, k := range cntKinds {
			try(k, f)
		}
		for _, k := range lenKinds {
			try(k, f)
		}
		for _, k := range valKinds {
			try(k, f)
		}
		for _, k := range bigKinds {
			try(k, f)
		}
	}
	return
}

type LibJob struct {
	ID   int   `json:"id"`
	T    int   `json:"t"`
	From int   `json:"from"`
	N    int   `json:"n"`
	Seed int64 `json:"seed"`
}

type LibFail struct {
	K    int    `json:"k"`
	Kind string `json:"kind"` // panic | slow | crash | timeout
	What string `json:"what"`
	Desc string `json:"desc"`
	Hex  string `json:"hex"`
}

type LibRes struct {
	ID     int       `json:"id"`
	Target string    `json:"target"`
	N      int       `json:"n"`
	Fails  []LibFail `json:"fails,omitempty"`
	Viol   string    `json:"viol,omitempty"`
	MaxMs  float64   `json:"maxms"`
	Retire bool      `json:"retire,omitempty"`
}

const libSlow = 5 * time.Second

func cmdLibWorker(args []string) {
	fs := flag.NewFlagSet("libworker", flag.ExitOnError)
	dir := fs.String("dir", "", "")
	asgb := fs.Int("asgb", 8, "")
	fs.Parse(args)
	setASLimit(*asgb)
	orphanWatch()
	out := os.NewFile(3, "results")
	w := newWorld(*dir)
	enc := json.NewEncoder(out)
	fmt.Fprintln(out, `{"ready":true}`)
	vio.ReadLines("-", func(n int, line []byte) error {
		var j LibJob
		if e := json.Unmarshal(line, &j); e != nil {
			fatal("bad job", e)
		}
		t := &targets[j.T]
		res := LibRes{ID: j.ID, Target: t.name}
		for k := j.From; k < j.From+j.N; k++ {
			data, desc := libCase(w, t, j.Seed, k)
			fmt.Fprintf(out, "{\"start\":%d}\n", k)
			t0 := time.Now()
			what := func() (what string) {
				defer func() {
					if r := recover(); r != nil {
						buf := make([]byte, 4096)
						buf = buf[:runtime.Stack(buf, false)]
						what = fmt.Sprint("panic: ", r, "\n", string(buf))
					}
				}()
				t.call(w, data)
				return ""
			}()
			el := time.Since(t0)
			if ms := float64(el.Microseconds()) / 1000; ms > res.MaxMs {
				res.MaxMs = ms
			}
			res.N++
			if what != "" && len(res.Fails) < 40 {
				res.Fails = append(res.Fails, LibFail{K: k, Kind: "panic", What: what, Desc: desc, Hex: hx(data)})
			} else if el > libSlow && len(res.Fails) < 40 {
				res.Fails = append(res.Fails, LibFail{K: k, Kind: "slow", What: fmt.Sprint("took ", el), Desc: desc, Hex: hx(data)})
			}
		}
		var ms runtime.MemStats
		runtime.ReadMemStats(&ms)
		res.Retire = ms.HeapSys > 1<<30
		enc.Encode(res)
		if res.Retire {
			os.Exit(0)
		}
		return nil
	})
	os.Exit(0)
}

func cmdLib(args []string) {
	fs := flag.NewFlagSet("lib", flag.ExitOnError)
	dir := fs.String("dir", os.TempDir(), "")
	seed := fs.Int64("seed", 1, "")
	n := fs.Int("n", 2000, "mutations per target (the perturbation classes come on top)")
	workers := fs.Int("workers", 4, "")
	asgb := fs.Int("asgb", 8, "")
	only := fs.String("only", "", "run just this case: <target index>:<k>")
	list := fs.Bool("list", false, "print the target names")
	maxfail := fs.Int("maxfail", 60, "a target with this many failing cases is not driven further")
	fs.Parse(args)
	if *list {
		for _, t := range targets {
			fmt.Println(t.name)
		}
		return
	}
	devnull, _ := os.OpenFile(os.DevNull, os.O_WRONLY, 0)
	stdout := os.Stdout
	os.Stdout = devnull
	w := newWorld(*dir + "/sup")
	os.Stdout = stdout
	out := vio.NewOut()
	var jobs [][]byte
	id := 0
	add := func(ti, from, cnt int) {
		id++
		b, _ := json.Marshal(LibJob{ID: id, T: ti, From: from, N: cnt, Seed: *seed})
		jobs = append(jobs, append(b, '\n'))
	}
	jobOf := map[int]LibJob{}
	if *only != "" {
		var ti, k int
		fmt.Sscanf(*only, "%d:%d", &ti, &k)
		add(ti, k, 1)
	} else {
		for ti := range targets {
			t := &targets[ti]
			total := *n
			if t.samples != nil {
				for _, s := range t.samples(w) {
					total += len(classKinds(s))
				}
			} else {
				for _, r := range t.raw(w) {
					total++
					if !t.noPref {
						total += len(r)
						if len(r) > 96 {
							total -= len(r) - 96
						}
					}
				}
			}
			const chunk = 250
			for from := 0; from < total; from += chunk {
				c := chunk
				if from+c > total {
					c = total - from
				}
				add(ti, from, c)
			}
		}
	}
	for _, jb := range jobs {
		var j LibJob
		json.Unmarshal(jb, &j)
		jobOf[j.ID] = j
	}
	var mu sync.Mutex
	cases, nfail, skipped := 0, 0, 0
	failsOf := map[int]int{}
	byTarget := map[string]int{}
	progress := map[int]int{} // job id -> last started k (only the supervisor's view of crashed jobs matters)
	_ = progress
	extra := []string{"-asgb", fmt.Sprint(*asgb)}
	var requeue [][]byte
	run := func(js [][]byte) error {
		return runPoolK("libworker", *dir, *workers, extra, js, 90*time.Second,
			func(job, res []byte) {
				var r LibRes
				json.Unmarshal(res, &r)
				var jb LibJob
				json.Unmarshal(job, &jb)
				mu.Lock()
				cases += r.N
				byTarget[r.Target] += r.N
				nfail += len(r.Fails)
				failsOf[jb.T] += len(r.Fails)
				mu.Unlock()
				if len(r.Fails) > 0 {
					r.Viol = r.Fails[0].Kind
				}
				out.Put(r)
			},
			func(job []byte, lastK int, how, logtail string) {
				var j LibJob
				json.Unmarshal(job, &j)
				t := &targets[j.T]
				if lastK < j.From {
					lastK = j.From
				}
				data, desc := libCase(w, t, j.Seed, lastK)
				kind := "crash"
				if strings.Contains(how, "no answer") {
					kind = "timeout"
				}
				mu.Lock()
				cases += lastK - j.From + 1
				byTarget[t.name] += lastK - j.From + 1
				nfail++
				failsOf[j.T]++
				// the rest of the chunk still has to run
				if rest := j.From + j.N - (lastK + 1); rest > 0 {
					id++
					b, _ := json.Marshal(LibJob{ID: id, T: j.T, From: lastK + 1, N: rest, Seed: j.Seed})
					requeue = append(requeue, append(b, '\n'))
				}
				mu.Unlock()
				out.Put(LibRes{ID: j.ID, Target: t.name, N: lastK - j.From + 1, Viol: kind,
					Fails: []LibFail{{K: lastK, Kind: kind, What: how + "; end of the output:\n" + logtail, Desc: desc, Hex: hx(data)}}})
			})
	}
	// a target that keeps failing is not driven through all of its mutations (they cost a process each)
	skipJob = func(job []byte) bool {
		var j LibJob
		json.Unmarshal(job, &j)
		mu.Lock()
		defer mu.Unlock()
		if failsOf[j.T] >= *maxfail {
			skipped += j.N
			return true
		}
		return false
	}
	for round := 0; len(jobs) > 0 && round < 400; round++ {
		requeue = nil
		if err := run(jobs); err != nil {
			fmt.Fprintln(os.Stderr, "pool:", err)
			out.Flush()
			os.Exit(2)
		}
		jobs = requeue
	}
	names := []string{}
	for k := range byTarget {
		names = append(names, k)
	}
	sort.Strings(names)
	out.Put(map[string]interface{}{"summary": true, "cases": cases, "fails": nfail, "targets": len(targets), "by_target": byTarget, "cases_not_run": skipped})
	out.Flush()
}
