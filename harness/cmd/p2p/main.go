// p2p: conformance driver binding spec/P2P.tla to client/network (property C18).
//
//	p2p replay  -in <sessions.ndjson> -dir <scratch> -seed S -workers N [-msgms 15000] [-patiencems 2000] [-bytes]
//	    every line {"id":n,"msgs":[{"cmd":..,"k":..,"f":..},..]} is one session exported from the specification.
//	    Sessions are run by worker subprocesses (a crashed / wedged / exited worker is an observation, not the end
//	    of the driver). One JSON line per session on stdout, then a summary line.
//	p2p worker  (internal) sessions on stdin, results on fd 3
//	p2p lib     -dir <scratch> -seed S -n N -workers W     library entry points, same perturbations + seeded mutations
//	p2p libworker (internal)
//	p2p grammar -dir <scratch>        the grammars of the concretiser, to be compared with the specification's
//	p2p bytes   -dir <scratch> -seed S  (sessions on stdin) -> the framed bytes of each message, hex
package main

import (
	"bufio"
	"encoding/json"
	"flag"
	"fmt"
	"io"
	"math/rand"
	"os"
	"os/exec"
	"path/filepath"
	"runtime"
	"strings"
	"sync"
	"sync/atomic"
	"syscall"
	"time"

	"verifharness/vio"
)

type Session struct {
	ID   int     `json:"id"`
	Msgs []Class `json:"msgs"`
}

// orphanWatch ends a worker whose supervisor is gone (a wedged node must not outlive the check).
func orphanWatch() {
	pp := os.Getppid()
	go func() {
		for {
			time.Sleep(time.Second)
			if os.Getppid() != pp {
				os.Exit(4)
			}
		}
	}()
}

func setASLimit(gb int) {
	if gb <= 0 {
		return
	}
	lim := syscall.Rlimit{Cur: uint64(gb) << 30, Max: uint64(gb) << 30}
	syscall.Setrlimit(syscall.RLIMIT_AS, &lim)
}

// ------------------------------------------------------------------ worker

func cmdWorker(args []string) {
	fs := flag.NewFlagSet("worker", flag.ExitOnError)
	dir := fs.String("dir", "", "")
	seed := fs.Int64("seed", 1, "")
	msgms := fs.Int("msgms", 15000, "")
	patms := fs.Int("patiencems", 2000, "")
	keep := fs.Bool("bytes", false, "")
	asgb := fs.Int("asgb", 8, "")
	selft := fs.String("selftest", "", "")
	fs.Parse(args)
	setASLimit(*asgb)
	orphanWatch()
	out := os.NewFile(3, "results")
	if out == nil {
		fatal("no fd 3")
	}
	w := newWorld(*dir)
	lim := Limits{Msg: time.Duration(*msgms) * time.Millisecond, Patience: time.Duration(*patms) * time.Millisecond, SelfTest: *selft}
	enc := json.NewEncoder(out)
	fmt.Fprintln(out, `{"ready":true}`)
	rd := bufio.NewReaderSize(os.Stdin, 1<<20)
	for {
		line, err := rd.ReadBytes('\n')
		if len(line) > 1 {
			var s Session
			if e := json.Unmarshal(line, &s); e != nil {
				fatal("bad session line", e)
			}
			fmt.Fprintf(out, "{\"start\":%d}\n", s.ID)
			fmt.Fprintf(os.Stderr, "\n=== session %d %v\n", s.ID, s.Msgs)
			res := w.runSession(s.ID, s.Msgs, *seed, lim, *keep)
			var ms runtime.MemStats
			runtime.ReadMemStats(&ms)
			// after a very large allocation the process is retired, so that the address space it leaves behind
			// cannot influence what a later session observes; after a violation the node is damaged anyway
			res.Retire = res.Viol != "" || ms.HeapSys > 1<<30
			enc.Encode(res)
			if res.Retire {
				os.Exit(0)
			}
		}
		if err != nil {
			break
		}
	}
	os.Exit(0)
}

// ------------------------------------------------------------------ supervisor

type child struct {
	cmd  *exec.Cmd
	in   io.WriteCloser
	out  *bufio.Reader
	outf *os.File
	log  string
	dir  string
}

func spawn(sub string, dir string, idx int, extra []string) (*child, error) {
	self, _ := os.Executable()
	cdir := filepath.Join(dir, fmt.Sprintf("w%d", idx))
	os.RemoveAll(cdir)
	os.MkdirAll(cdir, 0770)
	logp := filepath.Join(dir, fmt.Sprintf("w%d.log", idx))
	lf, err := os.Create(logp)
	if err != nil {
		return nil, err
	}
	pr, pw, err := os.Pipe()
	if err != nil {
		return nil, err
	}
	cmd := exec.Command(self, append([]string{sub, "-dir", cdir}, extra...)...)
	cmd.Dir = cdir
	cmd.Stdout, cmd.Stderr = lf, lf
	cmd.ExtraFiles = []*os.File{pw}
	in, _ := cmd.StdinPipe()
	if err = cmd.Start(); err != nil {
		return nil, err
	}
	pw.Close()
	lf.Close()
	c := &child{cmd: cmd, in: in, out: bufio.NewReaderSize(pr, 1<<20), outf: pr, log: logp, dir: cdir}
	// wait for "ready"
	line, err := c.readLine(120 * time.Second)
	if err != nil || len(line) == 0 {
		c.kill()
		return nil, fmt.Errorf("worker did not start: %v\n%s", err, tail(logp, 3000))
	}
	return c, nil
}

func (c *child) readLine(d time.Duration) ([]byte, error) {
	type r struct {
		b []byte
		e error
	}
	ch := make(chan r, 1)
	go func() {
		b, e := c.out.ReadBytes('\n')
		ch <- r{b, e}
	}()
	select {
	case x := <-ch:
		return x.b, x.e
	case <-time.After(d):
		return nil, fmt.Errorf("no answer within %v", d)
	}
}

func (c *child) kill() {
	c.in.Close()
	c.cmd.Process.Kill()
	c.cmd.Wait()
	c.outf.Close()
}

// crashHead finds the message of the Go runtime that ended the process (fatal error / panic) in the log.
func crashHead(p string) string {
	t := tail(p, 4<<20)
	best := -1
	for _, key := range []string{"\nfatal error: ", "\npanic: ", "\nruntime: out of memory", "HARNESS-FATAL"} {
		if i := strings.LastIndex(t, key); i >= 0 && (best < 0 || i < best) {
			best = i
		}
	}
	if best < 0 {
		if len(t) > 3000 {
			t = t[len(t)-3000:]
		}
		return t
	}
	t = t[best:]
	if len(t) > 5000 {
		t = t[:5000]
	}
	return t
}

func tail(p string, n int64) string {
	f, err := os.Open(p)
	if err != nil {
		return ""
	}
	defer f.Close()
	st, _ := f.Stat()
	off := st.Size() - n
	if off < 0 {
		off = 0
	}
	b := make([]byte, st.Size()-off)
	f.ReadAt(b, off)
	return string(b)
}

// runPool feeds jobs (one JSON line each, with an "id") to worker subprocesses of kind sub.
// onResult gets the raw result line; onCrash is called when the worker died or stopped answering during a job.
// skipJob, when set, is asked before a job is handed to a worker; a skipped job produces no result.
var skipJob func(job []byte) bool

func runPoolK(sub, dir string, workers int, extra []string, jobs [][]byte, hardTimeout time.Duration,
	onResult func(job []byte, res []byte), onCrash func(job []byte, lastStart int, how string, logtail string)) error {
	var mu sync.Mutex
	queue := append([][]byte(nil), jobs...)
	var firstErr error
	var wg sync.WaitGroup
	for wi := 0; wi < workers; wi++ {
		wg.Add(1)
		go func(wi int) {
			defer wg.Done()
			var c *child
			defer func() {
				if c != nil {
					c.kill()
				}
			}()
			spawnFails := 0
			for {
				mu.Lock()
				if len(queue) == 0 || firstErr != nil || poolStop.Load() {
					mu.Unlock()
					return
				}
				job := queue[0]
				queue = queue[1:]
				mu.Unlock()
				if skipJob != nil && skipJob(job) {
					continue
				}
				if c == nil {
					var err error
					if c, err = spawn(sub, dir, wi, extra); err != nil {
						spawnFails++
						mu.Lock()
						if spawnFails > 2 && firstErr == nil {
							firstErr = err
						}
						queue = append(queue, job) // give the job back
						mu.Unlock()
						c = nil
						continue
					}
				}
				if st, _ := os.Stat(c.log); st != nil && st.Size() > 64<<20 {
					os.Truncate(c.log, 0)
				}
				if _, err := c.in.Write(job); err != nil {
					onCrash(job, -1, "worker not accepting input", tail(c.log, 6000))
					c.kill()
					c = nil
					continue
				}
				// "start" line, then the result
				var res []byte
				var err error
				lastStart := -1
				for {
					res, err = c.readLine(hardTimeout)
					if err != nil || len(res) == 0 || res[0] != '{' {
						break
					}
					if k, ok := isStart(res); ok {
						lastStart = k
						continue
					}
					break
				}
				if err != nil || len(res) < 2 {
					how := "worker process died"
					if err != nil && err != io.EOF {
						how = "worker process gave no answer: " + err.Error()
					}
					if err != nil && err != io.EOF {
						c.cmd.Process.Signal(syscall.SIGQUIT) // it still lives: goroutine dump into the log
						time.Sleep(300 * time.Millisecond)
					}
					c.kill()
					if ps := c.cmd.ProcessState; ps != nil {
						how += " (" + ps.String() + ")"
					}
					onCrash(job, lastStart, how, crashHead(c.log))
					c = nil
					continue
				}
				onResult(job, res)
				if hasViol(res) {
					c.kill() // it exits by itself; make sure
					c = nil
				} else if isRetire(res) {
					c.kill()
					c = nil
				}
			}
		}(wi)
	}
	wg.Wait()
	return firstErr
}

func isRetire(b []byte) bool {
	var m struct {
		Retire bool `json:"retire"`
	}
	json.Unmarshal(b, &m)
	return m.Retire
}

func isStart(b []byte) (int, bool) {
	if len(b) > 64 || !strings.HasPrefix(string(b), "{\"start\":") {
		return 0, false
	}
	var m struct {
		Start *int `json:"start"`
	}
	if json.Unmarshal(b, &m) != nil || m.Start == nil {
		return 0, false
	}
	return *m.Start, true
}

var poolStop atomic.Bool

func violKind(b []byte) string {
	var m struct {
		Viol string `json:"viol"`
	}
	json.Unmarshal(b, &m)
	return m.Viol
}

func hasViol(b []byte) bool {
	var m struct {
		Viol string `json:"viol"`
	}
	json.Unmarshal(b, &m)
	return m.Viol != ""
}

func readJobs(name string) ([][]byte, error) {
	var jobs [][]byte
	err := vio.ReadLines(name, func(n int, line []byte) error {
		l := append([]byte(nil), line...)
		if l[len(l)-1] != '\n' {
			l = append(l, '\n')
		}
		jobs = append(jobs, l)
		return nil
	})
	return jobs, err
}

func cmdReplay(args []string) {
	fs := flag.NewFlagSet("replay", flag.ExitOnError)
	in := fs.String("in", "-", "")
	dir := fs.String("dir", os.TempDir(), "")
	seed := fs.Int64("seed", 1, "")
	workers := fs.Int("workers", 4, "")
	msgms := fs.Int("msgms", 15000, "")
	patms := fs.Int("patiencems", 2000, "")
	keep := fs.Bool("bytes", false, "")
	asgb := fs.Int("asgb", 8, "")
	selft := fs.String("selftest", "", "")
	maxslow := fs.Int("maxslow", 40, "stop after this many timeout / lock-held violations")
	maxper := fs.Int("maxper", 12, "a (last command, class kind) that violated this often is not run in further session states")
	fs.Parse(args)
	jobs, err := readJobs(*in)
	if err != nil {
		fmt.Fprintln(os.Stderr, "read:", err)
		os.Exit(2)
	}
	if *workers > len(jobs) {
		*workers = len(jobs)
	}
	if *workers < 1 {
		*workers = 1
	}
	out := vio.NewOut()
	extra := []string{"-seed", fmt.Sprint(*seed), "-msgms", fmt.Sprint(*msgms), "-patiencems", fmt.Sprint(*patms), "-asgb", fmt.Sprint(*asgb)}
	if *keep {
		extra = append(extra, "-bytes")
	}
	if *selft != "" {
		extra = append(extra, "-selftest", *selft)
	}
	var mu sync.Mutex
	nres, nviol, ncrash, nslow := 0, 0, 0, 0
	// a payload class that keeps violating (same last command and class kind) is not tried in every session state
	perClass := map[string]int{}
	lastOf := func(job []byte) string {
		var s Session
		json.Unmarshal(job, &s)
		if len(s.Msgs) == 0 {
			return ""
		}
		l := s.Msgs[len(s.Msgs)-1]
		return l.Cmd + "/" + l.K
	}
	skipJob = func(job []byte) bool {
		mu.Lock()
		defer mu.Unlock()
		return *maxper > 0 && perClass[lastOf(job)] >= *maxper
	}
	hard := time.Duration(*msgms)*time.Millisecond*8 + time.Duration(*patms)*time.Millisecond*40 + 30*time.Second
	err = runPoolK("worker", *dir, *workers, extra, jobs, hard,
		func(job, res []byte) {
			mu.Lock()
			nres++
			if hasViol(res) {
				nviol++
				perClass[lastOf(job)]++
				if k := violKind(res); k == "timeout" || k == "lockheld" {
					// these cost seconds each; beyond the budget the remaining sessions are reported as not run
					if nslow++; nslow == *maxslow {
						poolStop.Store(true)
					}
				}
			}
			mu.Unlock()
			out.Put(json.RawMessage(bytesTrim(res)))
		},
		func(job []byte, _ int, how, logtail string) {
			var s Session
			json.Unmarshal(job, &s)
			mu.Lock()
			nres++
			ncrash++
			perClass[lastOf(job)]++
			mu.Unlock()
			out.Put(SessRes{ID: s.ID, Viol: "crash", At: 0, What: how + "; end of the node's output:\n" + logtail})
		})
	if err != nil {
		fmt.Fprintln(os.Stderr, "pool:", err)
		out.Flush()
		os.Exit(2)
	}
	out.Put(map[string]interface{}{"summary": true, "sessions": nres, "violations": nviol, "crashes": ncrash, "stopped_early": poolStop.Load() || nres < len(jobs)})
	out.Flush()
}

func bytesTrim(b []byte) []byte {
	for len(b) > 0 && (b[len(b)-1] == '\n' || b[len(b)-1] == '\r') {
		b = b[:len(b)-1]
	}
	return b
}

func cmdGrammar(args []string) {
	fs := flag.NewFlagSet("grammar", flag.ExitOnError)
	dir := fs.String("dir", "", "")
	fs.Parse(args)
	devnull, _ := os.OpenFile(os.DevNull, os.O_WRONLY, 0)
	stdout := os.Stdout
	os.Stdout = devnull // the node prints while it starts
	w := newWorld(*dir)
	g := map[string][]Seg{}
	for _, c := range allCmds {
		s := w.valid(c, make([]byte, 8))
		for i := range s {
			if s[i].K == "F" || s[i].K == "B" {
				s[i].N = uint64(len(s[i].B))
			}
		}
		if s == nil {
			s = []Seg{}
		}
		g[c] = s
	}
	b, _ := json.Marshal(g)
	fmt.Fprintln(stdout, string(b))
}

var cntKinds = []string{"cnt-1", "cnt+1", "cntfd", "cntfe", "cntffmax", "cntffbig", "cntneg", "cntwrap", "vec+1", "vec-1"}
var lenKinds = []string{"lenover1", "lenfd", "lenfe", "lenff"}
var valKinds = []string{"val+1", "val+2", "val-1", "valfd", "valfe", "valff"}
var bigKinds = []string{"x63m0", "x63m1", "x63m8", "x63m80", "x63m89", "x63m100", "x63", "x62"}
var frameKinds = []string{"badmagic", "badsum", "oversize", "encflag", "encflag0", "lenover1", "cmdfull"}

// alphabet derives every payload class of every command from the grammar (the same derivation as Classes(cmd) in spec/P2P.tla).
func alphabet(w *World) (out []Class) {
	rnd := rand.New(rand.NewSource(1))
	for _, c := range allCmds {
		if c == "frame" {
			for _, k := range frameKinds {
				out = append(out, Class{c, k, 0})
			}
			continue
		}
		_, isLoc := locatorVariant(c)
		if isLoc || isEnv(c) || c == "txo2" || c == "cmpctblock4" || c == "blocktxn2" || c == "idle" { // ContextOnly in the specification
			out = append(out, Class{c, "valid", 0})
			continue
		}
		s := w.valid(c, make([]byte, 8))
		try := func(k string, f int) {
			if _, ok := perturb(s, k, f, rnd); ok {
				out = append(out, Class{c, k, f})
			}
		}
		try("valid", 0)
		try("empty", 0)
		try("trail", 0)
		try("min", 0)
		for f := 1; f <= len(s); f++ {
			try("trunc", f)
			try("into", f)
			for _, k := range cntKinds {
				try(k, f)
			}
			for _, k := range lenKinds {
				try(k, f)
			}
			for _, k := range valKinds {
				try(k, f)
			}
			for _, k := range bigKinds {
				try(k, f)
			}
		}
	}
	return
}

func cmdAlphabet(args []string) {
	fs := flag.NewFlagSet("alphabet", flag.ExitOnError)
	dir := fs.String("dir", "", "")
	fs.Parse(args)
	devnull, _ := os.OpenFile(os.DevNull, os.O_WRONLY, 0)
	stdout := os.Stdout
	os.Stdout = devnull
	w := newWorld(*dir)
	enc := json.NewEncoder(stdout)
	for _, c := range alphabet(w) {
		enc.Encode(c)
	}
}

func cmdBytes(args []string) {
	fs := flag.NewFlagSet("bytes", flag.ExitOnError)
	dir := fs.String("dir", "", "")
	seed := fs.Int64("seed", 1, "")
	fs.Parse(args)
	devnull, _ := os.OpenFile(os.DevNull, os.O_WRONLY, 0)
	stdout := os.Stdout
	os.Stdout = devnull
	w := newWorld(*dir)
	vio.ReadLines("-", func(n int, line []byte) error {
		var s Session
		if e := json.Unmarshal(line, &s); e != nil {
			return e
		}
		rnd := rand.New(rand.NewSource(*seed*1000003 + int64(s.ID)))
		var o []string
		for _, cl := range s.Msgs {
			f, e := w.concretise(cl, make([]byte, 8), rnd)
			if e != nil {
				o = append(o, "ERR "+e.Error())
			} else {
				o = append(o, hx(f))
			}
		}
		b, _ := json.Marshal(map[string]interface{}{"id": s.ID, "frames": o})
		fmt.Fprintln(stdout, string(b))
		return nil
	})
}

func main() {
	if len(os.Args) < 2 {
		fmt.Fprintln(os.Stderr, "usage: p2p replay|lib|grammar|bytes ...")
		os.Exit(2)
	}
	switch os.Args[1] {
	case "replay":
		cmdReplay(os.Args[2:])
	case "worker":
		cmdWorker(os.Args[2:])
	case "lib":
		cmdLib(os.Args[2:])
	case "libworker":
		cmdLibWorker(os.Args[2:])
	case "grammar":
		cmdGrammar(os.Args[2:])
	case "bytes":
		cmdBytes(os.Args[2:])
	case "alphabet":
		cmdAlphabet(os.Args[2:])
	case "collide":
		w := newWorld(os.Args[2])
		t0 := time.Now()
		a, b, sid := w.collidingOrphans()
		fmt.Fprintf(os.Stderr, "collideHint = [2]uint32{%d, %d} sid=%012x found in %v\n", a, b, sid, time.Since(t0))
	default:
		os.Exit(2)
	}
}
