// msgs.go: the message grammars of spec/P2P.tla in concrete form.
//
// Every command has ONE valid instance, built from real chain data, kept as a list of segments that is
// field-for-field the grammar Grammar[cmd] of the specification:
//
//	F  fixed bytes            C  CompactSize count of a vector (E = element size when fixed, else 0)
//	L  CompactSize length     B  the variable bytes it announces
//	V  CompactSize scalar (an index)
//
// A payload class [k, f] of the specification is concretised by perturb(): the same derivation the
// specification makes (truncation at field boundary f, count/length/scalar of field f replaced ...).
package main

import (
	"bytes"
	"crypto/sha256"
	"encoding/binary"
	"encoding/hex"
	"fmt"
	"math/rand"
	"strings"
	"time"

	"github.com/piotrnar/gocoin/lib/btc"
	"github.com/piotrnar/gocoin/lib/others/siphash"
)

type Seg struct {
	K string `json:"k"`
	B []byte `json:"-"`
	E int    `json:"e"` // C: element size in bytes (0 = variable-size elements)
	N uint64 `json:"n"` // C/L/V: the value; F/B: number of bytes
}

type Class struct {
	Cmd string `json:"cmd"`
	K   string `json:"k"`
	F   int    `json:"f"`
}

func (c Class) String() string { return fmt.Sprintf("%s/%s@%d", c.Cmd, c.K, c.F) }

func cs(v uint64) []byte {
	var b [9]byte
	n := btc.PutULe(b[:], v)
	return append([]byte(nil), b[:n]...)
}

func segF(b []byte) Seg         { return Seg{K: "F", B: b, N: uint64(len(b))} }
func segC(n uint64, e int) Seg  { return Seg{K: "C", B: cs(n), E: e, N: n} }
func segV(n uint64, of int) Seg { return Seg{K: "V", B: cs(n), N: n, E: of} } // of: size of the collection it indexes
func segLB(b []byte) []Seg {
	return []Seg{{K: "L", B: cs(uint64(len(b))), N: uint64(len(b))}, {K: "B", B: b, N: uint64(len(b))}}
}
func le32(v uint32) []byte { var b [4]byte; binary.LittleEndian.PutUint32(b[:], v); return b[:] }
func le64(v uint64) []byte { var b [8]byte; binary.LittleEndian.PutUint64(b[:], v); return b[:] }

func join(s []Seg) []byte {
	var o []byte
	for _, x := range s {
		o = append(o, x.B...)
	}
	return o
}

// txSegs splits a transaction into the fields of the grammar (segwit serialisation when it has witnesses).
func txSegs(tx *btc.Tx) (s []Seg) {
	s = append(s, segF(le32(tx.Version)))
	if tx.SegWit != nil {
		s = append(s, segF([]byte{0, 1}))
	}
	s = append(s, segC(uint64(len(tx.TxIn)), 0))
	for _, in := range tx.TxIn {
		s = append(s, segF(append(append([]byte(nil), in.Input.Hash[:]...), le32(in.Input.Vout)...)))
		s = append(s, segLB(in.ScriptSig)...)
		s = append(s, segF(le32(in.Sequence)))
	}
	s = append(s, segC(uint64(len(tx.TxOut)), 0))
	for _, out := range tx.TxOut {
		s = append(s, segF(le64(out.Value)))
		s = append(s, segLB(out.Pk_script)...)
	}
	if tx.SegWit != nil {
		for _, w := range tx.SegWit {
			s = append(s, segC(uint64(len(w)), 0))
			for _, it := range w {
				s = append(s, segLB(it)...)
			}
		}
	}
	s = append(s, segF(le32(tx.Lock_time)))
	return
}

// Commands of the alphabet, in the order of the specification's Cmds.
// A name with a trailing digit is a second valid instance of the same wire command (see wireName).
var allCmds = []string{"version", "verack", "addr", "inv", "getdata", "notfound", "getblocks", "getheaders", "headers", "headers2",
	"tx", "txo1", "txo2", "block", "block2", "cmpctblock", "cmpctblock2", "cmpctblock3", "cmpctblock4", "getblocktxn", "getblocktxn1", "getblocktxn3", "blocktxn", "blocktxn2", "idle", "peersfull", "Bblock", "Bheaders", "ping", "pong",
	"feefilter", "sendcmpct", "sendheaders", "getaddr", "getmp", "getmpdone", "xauth", "authack", "filterload", "unknown", "frame",
	// block locators against a tree with a dead side branch (S1 - S2 forking off below the active tip)
	"getheadersS", "getheadersP", "getheadersSA", "getheadersAS", "getheadersU", "getheadersT", "getheadersE", "getheadersEA", "getheadersXS", "getheadersXU",
	"getblocksS", "getblocksP", "getblocksSA", "getblocksAS", "getblocksU", "getblocksT", "getblocksXS", "getblocksXU"}

// locatorVariant: "getheadersXS" -> "XS"
func locatorVariant(cmd string) (string, bool) {
	for _, p := range []string{"getheaders", "getblocks"} {
		if strings.HasPrefix(cmd, p) && len(cmd) > len(p) {
			return cmd[len(p):], true
		}
	}
	return "", false
}

func wireName(cmd string) string {
	if _, ok := locatorVariant(cmd); ok {
		if strings.HasPrefix(cmd, "getheaders") {
			return "getheaders"
		}
		return "getblocks"
	}
	switch cmd {
	case "unknown":
		return "verifxyz"
	case "headers2":
		return "headers"
	case "block2":
		return "block"
	case "cmpctblock2", "cmpctblock3", "cmpctblock4":
		return "cmpctblock"
	case "txo1", "txo2":
		return "tx"
	case "blocktxn2":
		return "blocktxn"
	case "getblocktxn1", "getblocktxn3":
		return "getblocktxn"
	}
	return cmd
}

// valid returns the valid instance of cmd. nodeNonce: the 8-byte nonce the node announced in its own version
// message on this connection (xauth signs it); nil before it is known.
func (w *World) valid(cmd string, nodeNonce []byte) []Seg {
	if v, ok := locatorVariant(cmd); ok {
		var loc [][32]byte
		stop := make([]byte, 32)
		switch v {
		case "S": // the tip of the side branch
			loc = [][32]byte{w.side2Hash}
		case "P": // a block of the side branch that is not its tip
			loc = [][32]byte{w.side1Hash}
		case "SA":
			loc = [][32]byte{w.side2Hash, w.midHash}
		case "AS":
			loc = [][32]byte{w.midHash, w.side2Hash}
		case "U":
			loc = [][32]byte{w.unkHash[0]}
		case "T":
			loc = [][32]byte{w.tipHash}
		case "E": // empty locator: the stop hash alone names the block
			stop = w.side2Hash[:]
		case "EA":
			stop = w.midHash[:]
		case "XS":
			loc, stop = [][32]byte{w.midHash, w.genesis}, w.side2Hash[:]
		case "XU":
			loc, stop = [][32]byte{w.midHash, w.genesis}, w.unkHash[1][:]
		}
		s := []Seg{segF(le32(70016)), segC(uint64(len(loc)), 32)}
		for i := range loc {
			s = append(s, segF(loc[i][:]))
		}
		return append(s, segF(stop))
	}
	switch cmd {
	case "version":
		var s []Seg
		s = append(s, segF(le32(70016)))
		s = append(s, segF(le64(btc.SERVICE_NETWORK|btc.SERVICE_SEGWIT)))
		s = append(s, segF(le64(uint64(time.Now().Unix()))))
		s = append(s, segF(netaddr(btc.SERVICE_NETWORK|btc.SERVICE_SEGWIT, [4]byte{0, 0, 0, 0}, 0)))     // addr_recv: unroutable, so no external-ip vote
		s = append(s, segF(netaddr(btc.SERVICE_NETWORK|btc.SERVICE_SEGWIT, [4]byte{10, 1, 2, 3}, 8333))) // addr_from
		s = append(s, segF([]byte{0x56, 0x45, 0x52, 0x49, 0x46, 0x31, 0x38, 0x21}))                      // nonce
		s = append(s, segLB([]byte("/verif-c18:0.1/"))...)
		s = append(s, segF(le32(w.baseHeight+2)))
		s = append(s, segF([]byte{1}))
		return s
	case "verack", "sendheaders", "getaddr":
		return nil
	case "addr":
		now := uint32(time.Now().Unix())
		a := func(ip [4]byte) []byte {
			return append(le32(now-600), netaddr(btc.SERVICE_NETWORK|btc.SERVICE_SEGWIT, ip, 8333)...)
		}
		return []Seg{segC(2, 30), segF(a([4]byte{93, 184, 216, 34})), segF(a([4]byte{151, 101, 1, 69}))}
	case "inv", "notfound":
		return []Seg{segC(2, 36), segF(append(le32(2), w.unkHash[0][:]...)), segF(append(le32(1), w.unkHash[1][:]...))}
	case "getdata":
		return []Seg{segC(3, 36), segF(append(le32(0x40000002), w.tipHash[:]...)), segF(append(le32(0x40000001), w.unkHash[1][:]...)),
			segF(append(le32(4), w.blk2Hash[:]...))}
	case "getblocks", "getheaders":
		return []Seg{segF(le32(70016)), segC(2, 32), segF(w.midHash[:]), segF(w.genesis[:]), segF(make([]byte, 32))}
	case "headers":
		return []Seg{segC(2, 81), segF(append(append([]byte(nil), w.b1[:80]...), 0)), segF(append(append([]byte(nil), w.b2[:80]...), 0))}
	case "tx":
		return txSegs(w.tx1)
	case "block":
		s := []Seg{segF(w.b1[:80]), segC(2, 0)}
		s = append(s, txSegs(w.cb1)...)
		s = append(s, txSegs(w.tx1)...)
		return s
	case "cmpctblock":
		// header, nonce, short ids of every non-prefilled tx (tx1), the coinbase prefilled at differential index 0
		nonce := []byte{1, 2, 3, 4, 5, 6, 7, 8}
		sid := shortID(w.b1[:80], nonce, w.tx1.WTxID().Hash[:])
		s := []Seg{segF(w.b1[:80]), segF(nonce), segC(1, 6), segF(sid), segC(1, 0), segV(0, 2)}
		s = append(s, txSegs(w.cb1)...)
		return s
	case "txo1": // orphans: their input is unknown, so they wait in the pool of rejected transactions
		return txSegs(w.orph[0])
	case "txo2":
		return txSegs(w.orph[1])
	case "cmpctblock3": // B1 with every transaction prefilled (differential indexes 0, 0), no short ids
		s := []Seg{segF(w.b1[:80]), segF([]byte{1, 2, 3, 4, 5, 6, 7, 8}), segC(0, 6), segC(2, 0), segV(0, 2)}
		s = append(s, txSegs(w.cb1)...)
		s = append(s, segV(0, 2))
		return append(s, txSegs(w.tx1)...)
	case "cmpctblock4": // B1's header with the one short id that both orphans have under this header and nonce
		var sb [8]byte
		binary.LittleEndian.PutUint64(sb[:], w.orphSid)
		s := []Seg{segF(w.b1[:80]), segF(orphanNonce), segC(1, 6), segF(sb[:6]), segC(1, 0), segV(0, 2)}
		return append(s, txSegs(w.cb1)...)
	case "headers2": // a header whose parent the node does not know (unless it has B1's)
		return []Seg{segC(1, 81), segF(append(append([]byte(nil), w.b2[:80]...), 0))}
	case "block2": // a valid block whose parent the node does not know (unless it has B1's header)
		s := []Seg{segF(w.b2[:80]), segC(1, 0)}
		return append(s, txSegs(w.cb2)...)
	case "cmpctblock2": // the same block in compact form: no short ids, the coinbase prefilled
		s := []Seg{segF(w.b2[:80]), segF([]byte{8, 7, 6, 5, 4, 3, 2, 1}), segC(0, 6), segC(1, 0), segV(0, 1)}
		return append(s, txSegs(w.cb2)...)
	// getblocktxn: differentially encoded indexes into blocks with two, one and four transactions
	case "getblocktxn":
		return []Seg{segF(w.blk2Hash[:]), segC(2, 0), segV(0, 2), segV(0, 2)}
	case "getblocktxn1":
		return []Seg{segF(w.tipHash[:]), segC(1, 0), segV(0, 1)}
	case "getblocktxn3": // absolute 0, 2, 3: the last one is the last transaction
		return []Seg{segF(w.blk4Hash[:]), segC(3, 0), segV(0, 4), segV(1, 4), segV(0, 4)}
	case "blocktxn":
		s := []Seg{segF(w.b1Hash[:]), segC(1, 0)}
		s = append(s, txSegs(w.tx1)...)
		return s
	case "blocktxn2": // for a block this connection never heard of
		s := []Seg{segF(w.unkHash[0][:]), segC(1, 0)}
		return append(s, txSegs(w.tx1)...)
	case "idle", "peersfull", "Bblock", "Bheaders": // no bytes from this peer: the environment acts (see isEnv)
		return nil
	case "ping", "pong", "feefilter":
		return []Seg{segF([]byte{9, 8, 7, 6, 5, 4, 3, 2})}
	case "sendcmpct":
		return []Seg{segF([]byte{1}), segF(le64(2))}
	case "getmp":
		return []Seg{segC(2, btc.Uint256IdxLen), segF(w.unkHash[0][:btc.Uint256IdxLen]), segF(w.unkHash[1][:btc.Uint256IdxLen])}
	case "getmpdone", "authack":
		return []Seg{segF([]byte{1})}
	case "xauth":
		// pubkey, DER signature of the node's nonce (zero-padded to 32 bytes), last block hash, height
		m := make([]byte, 32)
		copy(m, nodeNonce)
		r, sg, _ := btc.EcdsaSign(w.priv, m)
		var sig btc.Signature
		sig.R.Set(r)
		sig.S.Set(sg)
		return []Seg{segF(w.pub), {K: "B", B: sig.Bytes(), N: uint64(len(sig.Bytes()))}, segF(w.tipHash[:]), segF(le32(w.baseHeight))}
	case "filterload":
		return []Seg{segF([]byte{1, 0xff, 1, 0, 0, 0, 0, 0, 0, 0, 0})}
	case "unknown":
		return []Seg{segF([]byte("whatever"))}
	case "frame": // carrier payload of the framing classes
		return []Seg{segF([]byte{9, 8, 7, 6, 5, 4, 3, 2})}
	}
	panic("no grammar for " + cmd)
}

func netaddr(services uint64, ip [4]byte, port uint16) []byte {
	b := make([]byte, 26)
	binary.LittleEndian.PutUint64(b[0:8], services)
	b[18], b[19] = 0xff, 0xff
	copy(b[20:24], ip[:])
	binary.BigEndian.PutUint16(b[24:26], port)
	return b
}

// wrapCount: the smallest count > n that makes count*elemsize == n*elemsize modulo 2^64.
func wrapCount(n uint64, e int) uint64 {
	if e <= 0 {
		e = 1
	}
	v := 0
	for e%2 == 0 {
		e /= 2
		v++
	}
	if v == 0 {
		return n + (1 << 63) // odd element size: no wrap exists, use the sign bit instead
	}
	return n + (uint64(1) << uint(64-v))
}

// perturb concretises payload class (k, f) on the valid instance s. ok=false: the class does not exist for this grammar.
func perturb(s []Seg, k string, f int, rnd *rand.Rand) (pl []byte, ok bool) {
	cut := func(n int) []byte { return join(s[:n]) }
	fld := func(kinds string) *Seg {
		if f < 1 || f > len(s) || !bytes.Contains([]byte(kinds), []byte(s[f-1].K)) {
			return nil
		}
		return &s[f-1]
	}
	repl := func(nb []byte, keep int) []byte { // field f replaced by nb; keep = bytes kept after it (-1 = all)
		rest := join(s[f:])
		if keep >= 0 && len(rest) > keep {
			rest = rest[:keep]
		}
		return append(append(cut(f-1), nb...), rest...)
	}
	switch k {
	case "valid":
		return join(s), true
	case "empty":
		return nil, len(s) > 0
	case "trail":
		t := make([]byte, 4)
		rnd.Read(t)
		return append(join(s), t...), true
	case "min": // every vector empty, every variable field empty
		for _, x := range s {
			if x.K == "C" || x.K == "L" {
				return minimal(s), true
			}
		}
		return nil, false
	case "trunc":
		if f < 1 || f >= len(s) {
			return nil, false
		}
		return cut(f), true
	case "into":
		x := fld("B")
		if x == nil || len(x.B) < 2 {
			return nil, false
		}
		return append(cut(f-1), x.B[0]), true
	case "cnt-1", "cnt+1", "cntfd", "cntfe", "cntffmax", "cntffbig", "cntneg", "cntwrap":
		x := fld("C")
		if x == nil {
			return nil, false
		}
		switch k {
		case "cnt-1":
			if x.N == 0 {
				return nil, false
			}
			return repl(cs(x.N-1), -1), true
		case "cnt+1":
			return repl(cs(x.N+1), -1), true
		case "cntfd":
			return repl([]byte{0xfd, 0xff, 0xff}, -1), true
		case "cntfe":
			return repl([]byte{0xfe, 0xff, 0xff, 0xff, 0xff}, -1), true
		case "cntffmax":
			return repl([]byte{0xff, 0xff, 0xff, 0xff, 0xff, 0xff, 0xff, 0xff, 0xff}, 3), true
		case "cntffbig":
			return repl(append([]byte{0xff}, le64(1<<40)...), -1), true
		case "cntneg":
			return repl(append([]byte{0xff}, le64(1<<63)...), -1), true
		case "cntwrap":
			return repl(append([]byte{0xff}, le64(wrapCount(x.N, x.E))...), -1), true
		}
	case "vec+1", "vec-1": // the vector grows / shrinks consistently: count and elements agree
		x := fld("C")
		if x == nil || x.N == 0 {
			return nil, false
		}
		i, last := f, f // segment index (0-based) of the first element, then of the last one
		for n := uint64(0); n < x.N; n++ {
			last = i
			if x.E > 0 {
				i++
			} else {
				i = skipElem(s, i)
			}
		}
		if i > len(s) || last >= len(s) {
			return nil, false
		}
		if k == "vec+1" {
			o := append(append(cut(f-1), cs(x.N+1)...), join(s[f:i])...)
			o = append(o, join(s[last:i])...) // the last element once more
			return append(o, join(s[i:])...), true
		}
		o := append(append(cut(f-1), cs(x.N-1)...), join(s[f:last])...)
		return append(o, join(s[i:])...), true
	case "val+1", "val+2", "val-1":
		x := fld("V")
		if x == nil || (k == "val-1" && x.N == 0) {
			return nil, false
		}
		if k == "val+1" {
			return repl(cs(x.N+1), -1), true
		}
		if k == "val+2" {
			return repl(cs(x.N+2), -1), true
		}
		return repl(cs(x.N-1), -1), true
	case "x63m0", "x63m1", "x63m8", "x63m80", "x63m89", "x63m100", "x63", "x62":
		// the largest values of the 9-byte form: positive as int64 and such that offset + value wraps, the sign bit, 2^62
		if fld("CLV") == nil {
			return nil, false
		}
		v := map[string]uint64{"x63m0": 1<<63 - 1, "x63m1": 1<<63 - 2, "x63m8": 1<<63 - 9, "x63m80": 1<<63 - 81, "x63m89": 1<<63 - 90,
			"x63m100": 1<<63 - 101, "x63": 1 << 63, "x62": 1 << 62}[k]
		return repl(append([]byte{0xff}, le64(v)...), -1), true
	case "lenover1", "lenfd", "lenfe", "lenff":
		x := fld("L")
		if x == nil {
			return nil, false
		}
		rest := uint64(len(join(s[f:])))
		switch k {
		case "lenover1":
			return repl(cs(rest+1), -1), true
		case "lenfd":
			return repl([]byte{0xfd, 0xff, 0xff}, -1), true
		case "lenfe": // 16 MiB: beyond every per-command limit, in the 5-byte form
			return repl([]byte{0xfe, 0x00, 0x00, 0x00, 0x01}, -1), true
		case "lenff":
			return repl([]byte{0xff, 0xff, 0xff, 0xff, 0xff, 0xff, 0xff, 0xff, 0xff}, 3), true
		}
	case "valfd", "valfe", "valff":
		x := fld("V")
		if x == nil {
			return nil, false
		}
		switch k {
		case "valfd":
			return repl([]byte{0xfd, 0xff, 0xff}, -1), true
		case "valfe":
			return repl([]byte{0xfe, 0xff, 0xff, 0xff, 0xff}, -1), true
		case "valff":
			return repl([]byte{0xff, 0xff, 0xff, 0xff, 0xff, 0xff, 0xff, 0xff, 0xff}, -1), true
		}
	}
	return nil, false
}

// minimal: all counts zero (their elements dropped), all variable fields empty. Elements of a vector are the
// segments between its count and the next segment that the grammar marks as not belonging to it; since the
// grammars here only nest vectors inside the LAST top-level vector or carry fixed-size elements, the element
// extent is computed from E (fixed) or taken to the end of the enclosing structure (variable).
func minimal(s []Seg) []byte {
	var o []byte
	i := 0
	for i < len(s) {
		x := s[i]
		switch x.K {
		case "C":
			o = append(o, 0)
			i++
			if x.E > 0 { // skip the fixed-size elements
				for n := uint64(0); n < x.N && i < len(s); n++ {
					i++
				}
			} else { // variable-size elements: skip structurally
				for n := uint64(0); n < x.N; n++ {
					i = skipElem(s, i)
				}
			}
		case "L":
			o = append(o, 0)
			i += 2
		default:
			o = append(o, x.B...)
			i++
		}
	}
	return o
}

// skipElem skips one variable-size element starting at s[i]. The variable-size elements of the grammars are:
// a txin (F L B F), a txout (F L B), a witness item (L B), a scalar (V), a whole tx, a prefilled tx (V tx).
// The shape is recognised from the segment kinds.
func skipElem(s []Seg, i int) int {
	if i >= len(s) {
		return i
	}
	switch s[i].K {
	case "V":
		i++
		if i < len(s) && s[i].K == "F" && len(s[i].B) == 4 && i+1 < len(s) && (s[i+1].K == "C" || (s[i+1].K == "F" && len(s[i+1].B) == 2)) {
			return skipTx(s, i) // prefilled tx
		}
		return i
	case "L":
		return i + 2
	case "F":
		if len(s[i].B) == 36 { // txin
			return i + 4
		}
		if len(s[i].B) == 8 { // txout
			return i + 3
		}
		if len(s[i].B) == 4 { // tx
			return skipTx(s, i)
		}
	}
	return i + 1
}

func skipTx(s []Seg, i int) int {
	i++ // version
	sw := false
	if s[i].K == "F" && len(s[i].B) == 2 {
		sw = true
		i++
	}
	nin := s[i].N
	i++
	for n := uint64(0); n < nin; n++ {
		i += 4
	}
	nout := s[i].N
	i++
	for n := uint64(0); n < nout; n++ {
		i += 3
	}
	if sw {
		for n := uint64(0); n < nin; n++ {
			items := s[i].N
			i++
			i += 2 * int(items)
		}
	}
	return i + 1 // lock time
}

func shortID(hdr, nonce, wtxid []byte) []byte {
	h := sha256.New()
	h.Write(hdr)
	h.Write(nonce)
	kk := h.Sum(nil)
	v := siphash.Hash(binary.LittleEndian.Uint64(kk[0:8]), binary.LittleEndian.Uint64(kk[8:16]), wtxid)
	var b [8]byte
	binary.LittleEndian.PutUint64(b[:], v)
	return b[:6]
}

func hx(b []byte) string { return hex.EncodeToString(b) }
