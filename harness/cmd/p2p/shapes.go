// shapes.go: script-verification inputs whose witness shapes sit at the structural boundaries of BIP141 / BIP341:
// witness program lengths around 2 / 20 / 32 / 40, stacks with missing / empty / extra items, taproot control blocks
// around 33 + 32*k and the maximum, the annex. Each goes through script.VerifyTxScript with the block flags of a
// chain where every soft fork is active, and with the standardness flags. Only "returns, no panic" is asked.
//
// A case is kept as bytes (so that the seeded mutations of the library stage apply to it as well):
//
//	mode (0 native, 1 nested in P2SH) | len(pk) | pk | item count | { len lo | len hi | item }*
package main

import (
	"bytes"
	"crypto/sha256"

	"github.com/piotrnar/gocoin/lib/btc"
	"github.com/piotrnar/gocoin/lib/script"
)

func shapeCase(mode byte, pk []byte, items ...[]byte) []byte {
	b := []byte{mode, byte(len(pk))}
	b = append(b, pk...)
	b = append(b, byte(len(items)))
	for _, it := range items {
		b = append(b, byte(len(it)), byte(len(it)>>8))
		b = append(b, it...)
	}
	return b
}

func witnessShapes(w *World) (out [][]byte) {
	xonly := w.pub[1:]
	prog := func(ver byte, p []byte) []byte { // OP_n <push p>
		op := ver
		if ver > 0 {
			op = 0x50 + ver
		}
		return append([]byte{op, byte(len(p))}, p...)
	}
	fill := func(n int, first byte) []byte {
		b := bytes.Repeat([]byte{0x42}, n)
		if n > 0 {
			b[0] = first
		}
		return b
	}
	sig := w.tx1.SegWit[0][0]
	trueScript := []byte{0x51}
	annex := []byte{0x50, 1, 2, 3}
	for _, mode := range []byte{0, 1} {
		add := func(pk []byte, items ...[]byte) { out = append(out, shapeCase(mode, pk, items...)) }
		// --- taproot, script path: control block lengths around 33 + 32*k and the maximum
		tr := prog(1, xonly)
		for _, l := range []int{0, 1, 2, 32, 33, 34, 64, 65, 66, 97, 33 + 32*128, 33 + 32*128 + 1, 33 + 32*129} {
			c := fill(l, 0xc0)
			add(tr, trueScript, c)
			add(tr, []byte{}, c)
			add(tr, []byte{1}, trueScript, c)
			add(tr, trueScript, c, annex)
			add(tr, fill(l, 0xc1), c)
		}
		// --- taproot, key path and annex
		for _, l := range []int{0, 1, 63, 64, 65, 66} {
			add(tr, fill(l, 0x11))
			add(tr, fill(l, 0x11), annex)
		}
		add(tr)
		add(tr, annex)
		add(tr, annex, annex)
		add(tr, []byte{0x50})
		add(tr, []byte{})
		add(tr, []byte{}, []byte{})
		add(tr, []byte{}, []byte{}, []byte{})
		// --- witness program lengths, versions 0, 1, 2, 16
		for _, ver := range []byte{0, 1, 2, 16} {
			for _, l := range []int{1, 2, 19, 20, 21, 31, 32, 33, 40, 41} {
				pk := prog(ver, fill(l, 7))
				add(pk)
				add(pk, []byte{})
				add(pk, sig, w.pub)
				add(pk, trueScript)
				add(pk, trueScript, fill(33, 0xc0))
			}
		}
		// --- P2WSH: the script item missing / empty / not the committed one / the committed one
		h := sha256.Sum256(trueScript)
		wsh := prog(0, h[:])
		add(wsh)
		add(wsh, []byte{})
		add(wsh, []byte{1})
		add(wsh, []byte{1}, []byte{2})
		add(wsh, trueScript)
		add(wsh, []byte{1}, trueScript)
		add(wsh, fill(521, 1), trueScript)
		// --- P2WPKH: item counts 0..3, empty items
		add(w.wpk)
		add(w.wpk, sig)
		add(w.wpk, sig, w.pub)
		add(w.wpk, sig, w.pub, []byte{1})
		add(w.wpk, []byte{}, w.pub)
		add(w.wpk, sig, []byte{})
		add(w.wpk, []byte{}, []byte{})
	}
	return
}

func runWitnessShape(w *World, b []byte) {
	if len(b) < 3 {
		return
	}
	mode, pl := b[0]&1, int(b[1])
	if len(b) < 2+pl+1 {
		return
	}
	pk := b[2 : 2+pl]
	p := 2 + pl
	n := int(b[p])
	p++
	items := make([][]byte, 0, n)
	for i := 0; i < n; i++ {
		if len(b) < p+2 {
			return
		}
		l := int(b[p]) | int(b[p+1])<<8
		p += 2
		if len(b) < p+l {
			return
		}
		items = append(items, append([]byte(nil), b[p:p+l]...)) // exact capacity, as NewTx makes them
		p += l
	}
	for _, flags := range []uint32{w.ch.GetBlockFlags(w.baseHeight+1, 0), script.STANDARD_VERIFY_FLAGS} {
		tx, _ := btc.NewTx(w.tx1.Raw)
		tx.SetHash(w.tx1.Raw)
		tx.SegWit = [][][]byte{items}
		prev := pk
		tx.TxIn[0].ScriptSig = nil
		if mode == 1 { // nested: scriptSig pushes the witness program, the output pays to its script hash
			if len(pk) > 75 {
				return
			}
			tx.TxIn[0].ScriptSig = append([]byte{byte(len(pk))}, pk...)
			h := btc.Rimp160AfterSha256(pk)
			prev = append(append([]byte{0xa9, 0x14}, h[:]...), 0x87)
		}
		tx.AllocVerVars()
		tx.Spent_outputs = []*btc.TxOut{{Pk_script: prev, Value: 50e8}}
		script.VerifyTxScript(prev, &script.SigChecker{Tx: tx, Idx: 0, Amount: 50e8}, flags)
	}
}
