// hdpath: conformance driver binding spec/HDPath.tla to the real `wallet` binary and to lib/btc's HD wallet API,
// with harness/refhd (written from BIP32 / BIP39 / RFC 7914 / SEC 2 over math/big; nothing of gocoin) as evaluator
// of the derivation terms the model exports.
//
//	hdpath prep    -salt N -out hd_enttable.json        entropies + first byte of their SHA-256 for the model's BIP39 part
//	hdpath vectors -repo <repo>                         refhd.SelfTest + the BIP32 vectors of lib/btc/wallethd_test.go and the
//	                                                    BIP39 vectors of lib/others/bip39/bip39_test.go, read from the sources
//	hdpath replay  -in <lines> -wallet <bin> -dir <scratch> -salt N -workers N
//	    every line is one TLC-exported case (HDPathGen.Payload).  "listed": the configuration is written to wallet.cfg,
//	    `wallet -l` is run TWICE (determinism), then `-dump *`, `-xprv`, `-words`; every listed address, WIF, extended
//	    key and mnemonic word is compared with refhd's evaluation of the model's term; public derivation through
//	    btc.HDWallet (StringWallet / Child / Pub / PubAddr) is compared with the private one for every pair the model
//	    names; exported WIF / xprv strings are re-imported (btc.DecodePrivateAddr, btc.StringWallet, and the binary's
//	    .others file).  "bip39": bip39.NewMnemonic / EntropyFromMnemonic / MnemonicToByteArray / NewSeedWithErrorChecking
//	    against the word indices computed by the model.
//	hdpath sweep   -n N -pre M -hd K -salt S -workers W -wallet <bin> -dir <scratch>
//	    N pseudo-random secrets through btc.PublicFromPrivate vs refhd; M more through a cheap consistency screen
//	    (compressed prefix vs uncompressed y) whose every hit is judged by refhd; K random HD parents x child indexes
//	    (incl. children whose key / hash starts with a zero byte, found by search) through btc.HDWallet vs refhd.
//
// Output: one JSON line per failure {"ok":false,"sig":..,"what":..,...}, then a summary line.
package main

import (
	"bytes"
	"context"
	"crypto/sha256"
	"encoding/binary"
	"encoding/hex"
	"encoding/json"
	"errors"
	"flag"
	"fmt"
	"math/big"
	"os"
	"os/exec"
	"path/filepath"
	"regexp"
	"sort"
	"strings"
	"sync"
	"sync/atomic"
	"time"

	"github.com/piotrnar/gocoin/lib/btc"
	"github.com/piotrnar/gocoin/lib/others/bip39"

	"verifharness/refhd"
	"verifharness/vio"
)

// ---------------------------------------------------------------- exported case format

type Elem struct {
	N uint32 `json:"n"`
	H bool   `json:"h"`
}

func (e Elem) idx() uint32 {
	if e.H {
		return e.N | 0x80000000
	}
	return e.N
}

type Key struct {
	K      string `json:"k"`
	Path   []Elem `json:"path"`
	Sub    int    `json:"sub"`
	I      int    `json:"i"`
	Suffix []int  `json:"suffix"`
}

type XRef struct {
	Tag  string `json:"tag"`
	Path []Elem `json:"path"`
}

type Seed struct {
	K        string `json:"k"`
	Scrypt   int    `json:"scrypt"`
	Pass     string `json:"pass"`
	Mnem     string `json:"mnem"`
	Words    int    `json:"words"`
	Entbytes int    `json:"entbytes"`
	Csbits   int    `json:"csbits"`
	Tag      int    `json:"tag"`
}

type Form struct {
	A       string `json:"a"`
	Testnet bool   `json:"testnet"`
	P2pkh   int    `json:"p2pkh"`
	P2sh    int    `json:"p2sh"`
	Wif     int    `json:"wif"`
	Hrp     string `json:"hrp"`
	Xprv    string `json:"xprv"`
	Xpub    string `json:"xpub"`
}

type Out struct {
	Ok    bool    `json:"ok"`
	Why   string  `json:"why"`
	Seed  Seed    `json:"seed"`
	Keys  []Key   `json:"keys"`
	Xpubs []XRef  `json:"xpubs"`
	Xprvs []XRef  `json:"xprvs"`
	Via   [][]int `json:"via"`
	Form  Form    `json:"form"`
}

type Cfg struct {
	Wt      int    `json:"wt"`
	Depth   int    `json:"depth"`
	Subs    int    `json:"subs"`
	Keycnt  int    `json:"keycnt"`
	Atype   string `json:"atype"`
	Testnet bool   `json:"testnet"`
	Bip39   int    `json:"bip39"`
	Scrypt  int    `json:"scrypt"`
	Pass    string `json:"pass"`
	Mnem    string `json:"mnem"`
	Src     string `json:"src"`
	Seedsyn string `json:"seedsyn"`
	Syn     string `json:"syn"`
}

type Case struct {
	Phase string `json:"phase"`
	Cfg   Cfg    `json:"cfg"`
	Path  []Elem `json:"path"`
	Out   Out    `json:"out"`
	Nsubs int    `json:"nsubs"`
	Wraps bool   `json:"wraps"`
	E     struct {
		Ent []int `json:"ent"`
		Cs  int   `json:"cs"`
	} `json:"e"`
	Indices []int `json:"indices"`
	Entbits int   `json:"entbits"`
	Csbits  int   `json:"csbits"`
}

var verOf = map[string]uint32{"xprv": refhd.VerXprv, "xpub": refhd.VerXpub, "yprv": refhd.VerYprv, "ypub": refhd.VerYpub,
	"zprv": refhd.VerZprv, "zpub": refhd.VerZpub, "tprv": refhd.VerTprv, "tpub": refhd.VerTpub,
	"uprv": refhd.VerUprv, "upub": refhd.VerUpub, "vprv": refhd.VerVprv, "vpub": refhd.VerVpub}

// ---------------------------------------------------------------- plumbing

type Fail struct {
	Ok     bool        `json:"ok"`
	Sig    string      `json:"sig"`
	What   string      `json:"what"`
	Line   int         `json:"line"`
	Cmds   [][]string  `json:"cmds,omitempty"`
	Cfg    string      `json:"wallet_cfg,omitempty"`
	Stdout string      `json:"stdout,omitempty"`
	Stderr string      `json:"stderr,omitempty"`
	Detail interface{} `json:"detail,omitempty"`
}

type stats struct {
	mu        sync.Mutex
	Lines     int            `json:"lines"`
	Listed    int            `json:"listings"`
	Refused   int            `json:"refusals"`
	Keys      int            `json:"keys_compared"`
	Xkeys     int            `json:"extended_keys_compared"`
	PubDeriv  int            `json:"public_derivations_compared"`
	Reimports int            `json:"reimports"`
	Words     int            `json:"mnemonics_compared"`
	Bip39     int            `json:"bip39_cases"`
	Wraps     int            `json:"index_wrap_cases"`
	ByAtype   map[string]int `json:"by_atype"`
	ByDepth   map[string]int `json:"by_depth"`
	BySeed    map[string]int `json:"by_seed"`
	BySrc     map[string]int `json:"by_source_syntax_seedline"`
	Obs       map[string]int `json:"observations"`
	Fail      int            `json:"fail"`
	Infra     []string       `json:"infra,omitempty"`
	Runs      int64          `json:"wallet_runs"`
	Sweep     map[string]int `json:"sweep,omitempty"`
	Summary   bool           `json:"summary"`
}

var st = &stats{ByAtype: map[string]int{}, ByDepth: map[string]int{}, BySeed: map[string]int{}, BySrc: map[string]int{}, Obs: map[string]int{}, Summary: true}
var out *vio.Out
var walletBin, base string
var salt int
var runs int64

func infra(f string, a ...interface{}) {
	st.mu.Lock()
	if len(st.Infra) < 20 {
		st.Infra = append(st.Infra, fmt.Sprintf(f, a...))
	}
	st.mu.Unlock()
}

func count(m map[string]int, k string) { st.mu.Lock(); m[k]++; st.mu.Unlock() }
func add(p *int, n int)                { st.mu.Lock(); *p += n; st.mu.Unlock() }

type runRes struct {
	Cmd    []string
	Stdout string
	Stderr string
	Code   int
}

func runWallet(dir, stdin string, args ...string) (*runRes, error) {
	atomic.AddInt64(&runs, 1)
	ctx, cancel := context.WithTimeout(context.Background(), 300*time.Second)
	defer cancel()
	cmd := exec.CommandContext(ctx, walletBin, args...)
	cmd.Dir = dir
	cmd.Env = []string{"HOME=" + dir, "PATH=/usr/bin:/bin"}
	cmd.Stdin = strings.NewReader(stdin)
	var so, se bytes.Buffer
	cmd.Stdout, cmd.Stderr = &so, &se
	err := cmd.Run()
	r := &runRes{Cmd: append([]string{"wallet"}, args...), Stdout: so.String(), Stderr: se.String()}
	if ctx.Err() != nil {
		return r, errors.New("wallet timed out: " + strings.Join(args, " "))
	}
	if err != nil {
		if ee, ok := err.(*exec.ExitError); ok {
			r.Code = ee.ExitCode()
			return r, nil
		}
		return r, err
	}
	return r, nil
}

// exec runs the wallet in the case's directory, feeding the password the way the case's source says
func (x *lcase) exec(args ...string) (*runRes, error) {
	args = append(args, x.extra...)
	src := x.src
	if src == "typedsave" && x.saved {
		src = "file"
	}
	switch src {
	case "file":
		return runWallet(x.dir, x.p39, args...)
	case "stdin":
		return runWallet(x.dir, string(x.secret), append(args, "-stdin")...)
	}
	if src == "forceask" {
		args = append(args, "-p")
	}
	if x.single {
		args = append(args, "-1")
	}
	save := "n\n"
	if src == "typedsave" {
		save = "y\n"
	}
	return runWalletI(x.dir, []prompt{{"Enter your wallet's seed password: ", x.typed + "\n"}, {"Re-enter the seed password (to be sure): ", x.typed + "\n"},
		{"(y/n) : ", save}, {"Enter the BIP39 password: ", x.p39}}, args...)
}

type prompt struct{ text, reply string }

// runWalletI drives the wallet's console dialogue: stdin and stdout are pipes, every prompt that appears on stdout is answered
// with its line (the console reader takes whatever one read() returns, so nothing may be written ahead of a prompt)
func runWalletI(dir string, prompts []prompt, args ...string) (*runRes, error) {
	atomic.AddInt64(&runs, 1)
	ctx, cancel := context.WithTimeout(context.Background(), 120*time.Second)
	defer cancel()
	cmd := exec.CommandContext(ctx, walletBin, args...)
	cmd.Dir = dir
	cmd.Env = []string{"HOME=" + dir, "PATH=/usr/bin:/bin"}
	in, err := cmd.StdinPipe()
	if err != nil {
		return nil, err
	}
	outp, err := cmd.StdoutPipe()
	if err != nil {
		return nil, err
	}
	var se bytes.Buffer
	cmd.Stderr = &se
	r := &runRes{Cmd: append([]string{"wallet(console)"}, args...)}
	if err := cmd.Start(); err != nil {
		return r, err
	}
	var buf []byte
	pos := 0
	tmp := make([]byte, 4096)
	for {
		n, rerr := outp.Read(tmp)
		buf = append(buf, tmp[:n]...)
		for {
			best, bi := -1, -1
			for i, p := range prompts {
				if k := bytes.Index(buf[pos:], []byte(p.text)); k >= 0 && (best < 0 || k < best) {
					best, bi = k, i
				}
			}
			if bi < 0 {
				break
			}
			pos += best + len(prompts[bi].text)
			in.Write([]byte(prompts[bi].reply))
			r.Cmd = append(r.Cmd, "<"+strings.TrimSpace(prompts[bi].text)+">")
		}
		if rerr != nil {
			break
		}
	}
	in.Close()
	werr := cmd.Wait()
	r.Stdout, r.Stderr = string(buf), se.String()
	if ctx.Err() != nil {
		return r, errors.New("wallet console dialogue timed out: " + strings.Join(args, " ") + " | " + tail(r.Stdout, 200))
	}
	if werr != nil {
		if ee, ok := werr.(*exec.ExitError); ok {
			r.Code = ee.ExitCode()
			return r, nil
		}
		return r, werr
	}
	return r, nil
}

func prb(n int, parts ...interface{}) []byte {
	var o []byte
	for i := 0; len(o) < n; i++ {
		h := sha256.Sum256([]byte(fmt.Sprint(append(parts, i)...)))
		o = append(o, h[:]...)
	}
	return o[:n]
}

func prn(mod int, parts ...interface{}) int {
	return int(binary.BigEndian.Uint32(prb(4, parts...)) % uint32(mod))
}

func tail(s string, n int) string {
	if len(s) > n {
		return s[len(s)-n:]
	}
	return s
}

// ---------------------------------------------------------------- one listed case

type lcase struct {
	c       *Case
	line    int
	dir     string
	cfgTxt  string
	secret  []byte // content of .secret
	stdin   string // for -p39
	extra   []string
	src     string // how the password reaches the wallet
	typed   string // what is typed at the password prompt
	p39     string // what is typed at the BIP39 passphrase prompt ("" = never asked)
	saved   bool   // typedsave: the wallet has written .secret, later runs read it
	single  bool   // -1: no "Re-enter" prompt
	log     []*runRes
	failed  bool
	culprit string
}

// parityBad: the one known way for a key to go wrong everywhere at once - the code's compressed public key of this
// secret carries the wrong 02/03 prefix (judged by the evaluator).  Failures that involve such a key are reported under
// one signature, whatever their symptom (wrong address, failed key check, derailed child derivation).
func parityBad(priv []byte) bool {
	want := refhd.PubFromPriv(priv, true)
	return want != nil && !bytes.Equal(btc.PublicFromPrivate(priv, true), want)
}

func (x *lcase) fail(sig, what string, detail interface{}) {
	if x.culprit != "" {
		what = "symptom " + sig + ": " + what + " | cause: " + x.culprit
		sig = "pubkey-parity"
	}
	if cf := x.c.Cfg; cf.Src != "" {
		what += fmt.Sprintf(" | password source: %s, wallet.cfg spelling: %s, seed= line: %s", cf.Src, cf.Syn, cf.Seedsyn)
	}
	f := Fail{Sig: "C14:" + sig, What: what, Line: x.line, Cfg: x.cfgTxt, Detail: detail}
	for _, r := range x.log {
		f.Cmds = append(f.Cmds, r.Cmd)
	}
	if n := len(x.log); n > 0 {
		f.Stdout = tail(x.log[n-1].Stdout, 1200)
		f.Stderr = tail(x.log[n-1].Stderr, 800)
	}
	out.Put(f)
	x.failed = true
	add(&st.Fail, 1)
}

func pathStr(p []Elem) string {
	s := "m"
	for _, e := range p {
		s += fmt.Sprintf("/%d", e.N)
		if e.H {
			s += "'"
		}
	}
	return s
}

func (x *lcase) run(w int) {
	c := x.c
	cf := c.Cfg
	x.dir = filepath.Join(base, fmt.Sprintf("w%d", w))
	os.RemoveAll(x.dir)
	if err := os.MkdirAll(x.dir, 0o700); err != nil {
		infra("%v", err)
		return
	}
	// ---- the seed password and the evaluator's view of it
	var prefix, password string
	kind := cf.Pass
	switch kind {
	case "ascii":
		password = fmt.Sprintf("correct horse %d battery %d", salt, x.line)
	case "nonascii":
		password = fmt.Sprintf("za\xc5\xbc\xc3\xb3\xc5\x82\xc4\x87 \xf0\x9f\x94\x91 %d\x01\xff%d", salt, x.line)
	case "long":
		password = strings.Repeat(fmt.Sprintf("%d-%d/", salt, x.line), 60)
	case "prefixed":
		password = fmt.Sprintf("tail %d", x.line)
	case "":
	default:
		infra("line %d: unknown password kind %q", x.line, kind)
		return
	}
	// ---- wallet.cfg / switches, spelled as the model's syntax class says; the seed= line as its own class says
	variant := prn(1000, "hdvariant", salt, x.line)
	type kv struct{ k, v, flag string }
	var kvs []kv
	kvs = append(kvs, kv{"type", fmt.Sprint(cf.Wt), "-type"}, kv{"keycnt", fmt.Sprint(cf.Keycnt), "-n"})
	if cf.Wt == 4 {
		kvs = append(kvs, kv{"hdpath", pathStr(c.Path), "-hdpath"}, kv{"hdsubs", fmt.Sprint(cf.Subs), "-hdsubs"})
		if cf.Bip39 == 1 {
			kvs = append(kvs, kv{"bip39", "-1", "-bip39"})
		} else if cf.Bip39 != 0 {
			kvs = append(kvs, kv{"bip39", fmt.Sprint(cf.Bip39), "-bip39"})
		}
	}
	if cf.Scrypt != 0 {
		kvs = append(kvs, kv{"scrypt", fmt.Sprint(cf.Scrypt), "-scrypt"})
	}
	if cf.Testnet {
		kvs = append(kvs, kv{"testnet", "true", "-t"})
	}
	kvs = append(kvs, kv{"atype", cf.Atype, "-atype"})
	syn := cf.Syn
	if syn == "" {
		syn = "plain"
	}
	var c_ strings.Builder
	eol := "\n"
	if syn == "crlf" {
		eol = "\r\n"
	}
	c_.WriteString("# C14 scratch wallet (" + syn + ")" + eol)
	for _, e := range kvs {
		switch syn {
		case "plain", "crlf":
			c_.WriteString(e.k + "=" + e.v + eol)
		case "quoted": // hdpath and atype take quoted values (config.go trims the quotes)
			if e.k == "hdpath" || e.k == "atype" {
				c_.WriteString(e.k + "=\"" + e.v + "\"" + eol)
			} else {
				c_.WriteString(e.k + "=" + e.v + eol)
			}
		case "padded": // a line is trimmed as a whole; only atype also drops blanks right after the '='
			if e.k == "atype" {
				c_.WriteString(" \t" + e.k + "= " + e.v + "  \t" + eol)
			} else {
				c_.WriteString("  \t" + e.k + "=" + e.v + " \t " + eol)
			}
		case "upperkey":
			c_.WriteString(strings.ToUpper(e.k[:1]) + strings.ToUpper(e.k[1:2]) + e.k[2:] + "=" + e.v + eol)
		case "flags":
			if e.k == "testnet" {
				x.extra = append(x.extra, "-t")
			} else {
				x.extra = append(x.extra, e.flag+"="+e.v)
			}
		default:
			infra("line %d: unknown syntax class %q", x.line, syn)
			return
		}
	}
	// seed=: literal key material; the parser keeps everything after the first '=' but blanks, tabs, CR, LF around it
	if kind == "prefixed" && (cf.Seedsyn == "" || cf.Seedsyn == "none") {
		cf.Seedsyn = "plain"
	}
	seedLine := ""
	switch cf.Seedsyn {
	case "", "none":
	case "empty":
		seedLine, prefix = "seed=", ""
	case "plain":
		prefix = fmt.Sprintf("pfx%d_", salt)
		seedLine = "seed=" + prefix
	case "inner":
		prefix = fmt.Sprintf("top secret  words %d", x.line)
		seedLine = "seed=" + prefix
	case "padded":
		prefix = fmt.Sprintf("pad%d", x.line)
		seedLine = "seed= \t " + prefix + " \t"
	case "crlf":
		prefix = fmt.Sprintf("crlf%d", x.line)
		seedLine = "seed=" + prefix + "\r"
	case "qstart":
		prefix = fmt.Sprintf("\"lead%d", x.line)
		seedLine = "seed=" + prefix
	case "qend":
		prefix = fmt.Sprintf("%d' 11\"", x.line)
		seedLine = "seed=" + prefix
	case "qboth":
		prefix = fmt.Sprintf("\"top secret %d\"", x.line)
		seedLine = "seed=" + prefix
	case "qinner":
		prefix = fmt.Sprintf("a\"b\"c%d", x.line)
		seedLine = "seed=" + prefix
	case "eqhash":
		prefix = fmt.Sprintf("k=v#x=%d#", x.line)
		seedLine = "seed=" + prefix
	case "nonascii":
		prefix = fmt.Sprintf("\xc5\xbc\xf0\x9f\x94\x91%d\xc2\xa0", x.line)
		seedLine = "seed=" + prefix
	default:
		infra("line %d: unknown seed spelling %q", x.line, cf.Seedsyn)
		return
	}
	if cf.Seedsyn != "" && cf.Seedsyn != "none" {
		if syn == "upperkey" {
			seedLine = "SEED" + seedLine[4:]
		}
		c_.WriteString(seedLine + eol)
	}
	x.cfgTxt = c_.String()

	// user mnemonic (bip39 = -1)
	var userMn, userPass string
	mnValid := true
	if cf.Wt == 4 && cf.Bip39 == 1 {
		nw := []int{12, 15, 18, 21, 24}[(x.line+salt)%5]
		mn, err := refhd.Mnemonic(prb(nw/3*4, "usermn", salt, x.line))
		if err != nil {
			infra("%v", err)
			return
		}
		userMn = mn
		ws := strings.Fields(mn)
		typed := mn
		switch cf.Mnem {
		case "plain":
		case "messy":
			for i := range ws {
				if i%3 == 0 {
					ws[i] = strings.ToUpper(ws[i])
				}
			}
			nl := "\n"
			if cf.Src == "typed" || cf.Src == "typedsave" || cf.Src == "forceask" {
				nl = ";" // a prompt takes one line
			}
			typed = " " + strings.Join(ws[:4], ",  ") + nl + strings.Join(ws[4:], " 1.\t") + " " + nl
		case "pass", "pass_space", "pass_lead", "pass_trail", "pass_tab", "pass_nl", "pass_inner", "pass_nonascii":
			// the passphrase travels: stdin -> sys.ReadPassword (one read, trailing bytes below 0x20 dropped) -> bip39 seed,
			// and BIP39 uses it verbatim: blanks at either end, inner blanks, tabs and non-ASCII bytes all count
			var typed string
			typed, userPass = passphraseOf(cf.Mnem, x.line)
			x.extra = append(x.extra, "-p39")
			x.p39 = typed
		case "badsum":
			// another last word: the checksum bits live there; keep trying until refhd says the checksum is wrong
			for k := 1; ; k++ {
				ws[len(ws)-1] = refhd.Words[(k*37+x.line)%2048]
				if _, err := refhd.MnemonicEntropy(strings.Join(ws, " ")); err != nil {
					break
				}
			}
			typed = strings.Join(ws, " ")
			mnValid = false
		case "badword":
			ws[2] = "gocoin"
			typed = strings.Join(ws, " ")
			mnValid = false
		default:
			infra("line %d: unknown mnemonic class %q", x.line, cf.Mnem)
			return
		}
		x.secret = []byte(typed)
	} else {
		x.secret = []byte(password)
	}
	if err := os.WriteFile(filepath.Join(x.dir, "wallet.cfg"), []byte(x.cfgTxt), 0o600); err != nil {
		infra("%v", err)
		return
	}
	x.src = cf.Src
	if x.src == "" {
		x.src = "file"
	}
	x.single = variant%3 == 0
	// what the console reader hands over: one line, trailing control characters dropped
	x.typed = strings.TrimRight(string(x.secret), "\x00\x01\x02\x03\x04\x05\x06\x07\x08\t\n\x0b\x0c\r\x0e\x0f\x10\x11\x12\x13\x14\x15\x16\x17\x18\x19\x1a\x1b\x1c\x1d\x1e\x1f")
	switch x.src {
	case "file":
		if err := os.WriteFile(filepath.Join(x.dir, ".secret"), x.secret, 0o600); err != nil {
			infra("%v", err)
			return
		}
	case "stdin":
		if x.p39 != "" {
			infra("line %d: -stdin cannot be combined with the BIP39 passphrase prompt", x.line)
			return
		}
	case "typed", "typedsave":
	case "forceask": // -p: the typed password counts although a .secret file with something else is there
		os.WriteFile(filepath.Join(x.dir, ".secret"), []byte("not the password"), 0o600)
	default:
		infra("line %d: unknown password source %q", x.line, x.src)
		return
	}
	count(st.BySrc, x.src+"/"+syn+"/"+cf.Seedsyn)
	count(st.ByAtype, cf.Atype)
	count(st.ByDepth, fmt.Sprint(len(c.Path)))
	count(st.BySeed, c.Out.Seed.K+fmt.Sprintf("/scrypt%d", cf.Scrypt))

	// ---- run the listing twice
	r1, err := x.exec("-l")
	x.log = append(x.log, r1)
	if err != nil {
		infra("line %d: %v", x.line, err)
		return
	}
	t1, _ := os.ReadFile(filepath.Join(x.dir, "wallet.txt"))
	os.Remove(filepath.Join(x.dir, "wallet.txt"))
	if x.src == "typedsave" && r1.Code == 0 {
		// the file the wallet saved is what every later run reads: it must hold exactly the password that was typed
		sv, rerr := os.ReadFile(filepath.Join(x.dir, ".secret"))
		if rerr != nil {
			x.fail("secret-not-saved", "`Save the password on disk?` was answered y but there is no .secret file afterwards", nil)
			return
		}
		if string(sv) != x.typed {
			x.fail("saved-secret-differs", fmt.Sprintf("the password typed was %q, the wallet saved %q in .secret: every later run derives another wallet", x.typed, string(sv)), nil)
			return
		}
		x.saved = true
	}
	r2, err := x.exec("-l")
	x.log = append(x.log, r2)
	if err != nil {
		infra("line %d: %v", x.line, err)
		return
	}
	t2, _ := os.ReadFile(filepath.Join(x.dir, "wallet.txt"))
	interactive := x.src == "typed" || x.src == "typedsave" || x.src == "forceask"
	if !bytes.Equal(t1, t2) || (!interactive && stripTimes(r1.Stdout) != stripTimes(r2.Stdout)) || r1.Code != r2.Code {
		what := "two runs of `wallet -l` with the same seed and configuration differ"
		if x.src == "typedsave" {
			what = "the run in which the password was typed and saved and the next run, which read the saved file, list different wallets"
		}
		x.fail("nondeterministic", what, map[string]string{"first": string(t1), "second": string(t2)})
		return
	}

	// ---- predicted refusal
	if !c.Out.Ok {
		add(&st.Refused, 1)
		if len(listLines(string(t1))) > 0 || r1.Code == 0 {
			x.fail("refusal-expected:"+c.Out.Why, fmt.Sprintf("the configuration must be refused (%s) but `wallet -l` exited %d and listed %d keys", c.Out.Why, r1.Code, len(listLines(string(t1)))), nil)
		}
		_ = mnValid
		return
	}
	add(&st.Listed, 1)

	// ---- the evaluator: seed -> keys
	P := append([]byte(prefix), []byte(password)...)
	sd := c.Out.Seed
	if sd.Scrypt != 0 && sd.K != "mnemonic" {
		P = refhd.Scrypt(P, []byte("Gocoin scrypt password salt"), 1<<uint(sd.Scrypt), 8, 1, 32)
	}
	var master *refhd.XKey
	var mnemonic string
	var privs [][]byte
	switch sd.K {
	case "t3":
		s0 := refhd.Sha256d(P)
		for _, k := range c.Out.Keys {
			buf := append([]byte{}, s0...)
			for _, b := range k.Suffix {
				buf = append(buf, byte(b))
			}
			privs = append(privs, refhd.Sha256d(buf))
		}
	case "raw":
		master, err = refhd.Master(P)
	case "bip39":
		h := refhd.Sha256(P, []byte("|gocoin|"), P, []byte{byte(sd.Tag)})
		mnemonic, err = refhd.Mnemonic(h[:sd.Entbytes])
		if err == nil {
			if n := len(strings.Fields(mnemonic)); n != sd.Words {
				infra("line %d: %d entropy bytes give %d words, model says %d", x.line, sd.Entbytes, n, sd.Words)
				return
			}
			master, err = refhd.Master(refhd.MnemonicSeed(mnemonic, ""))
		}
	case "mnemonic":
		mnemonic = userMn
		master, err = refhd.Master(refhd.MnemonicSeed(userMn, userPass))
	default:
		infra("line %d: unknown seed kind %q", x.line, sd.K)
		return
	}
	if err != nil {
		infra("line %d: evaluator: %v", x.line, err)
		return
	}
	seenNode := map[string]bool{}
	note := func(priv []byte, where string) {
		if !seenNode[string(priv)] {
			seenNode[string(priv)] = true
			if x.culprit == "" && parityBad(priv) {
				x.culprit = fmt.Sprintf("btc.PublicFromPrivate(%x, compressed) = %x but the public key of this secret (%s) is %x",
					priv, btc.PublicFromPrivate(priv, true), where, refhd.PubFromPriv(priv, true))
			}
		}
	}
	walk := func(p []Elem) (*refhd.XKey, error) {
		k := master
		note(k.Priv, "the master key")
		for i, e := range p {
			var er error
			if k, er = k.CKDpriv(e.idx()); er != nil {
				return nil, er
			}
			note(k.Priv, pathStr(p[:i+1]))
		}
		return k, nil
	}
	if master != nil {
		for _, k := range c.Out.Keys {
			xk, er := walk(k.Path)
			if er != nil {
				infra("line %d: evaluator: %v", x.line, er)
				return
			}
			privs = append(privs, xk.Priv)
		}
	}
	if c.Wraps {
		add(&st.Wraps, 1)
	}
	for i, pv := range privs {
		note(pv, "listed key "+termStr(c.Out.Keys[i]))
	}
	if r1.Code != 0 {
		x.fail("listing-failed", fmt.Sprintf("`wallet -l` exit %d: %s", r1.Code, strings.TrimSpace(tail(r1.Stderr, 200))), nil)
		return
	}
	f := c.Out.Form
	pubs := make([][]byte, len(privs))
	p2pkh := make([]string, len(privs))
	want := make([]string, len(privs))
	for i, pv := range privs {
		pub := refhd.PubFromPriv(pv, true)
		if pub == nil {
			infra("line %d: evaluator: key %d out of range", x.line, i)
			return
		}
		pubs[i] = pub
		h := refhd.Hash160(pub)
		p2pkh[i] = refhd.B58CheckEncode(append([]byte{byte(f.P2pkh)}, h...))
		switch f.A {
		case "p2kh":
			want[i] = p2pkh[i]
		case "segwit":
			want[i] = refhd.B58CheckEncode(append([]byte{byte(f.P2sh)}, refhd.Hash160(append([]byte{0, 20}, h...))...))
		case "bech32":
			want[i] = refhd.SegwitAddr(f.Hrp, 0, h)
		case "tap":
			want[i] = refhd.SegwitAddr(f.Hrp, 1, pub[1:])
		case "pks":
			want[i] = hex.EncodeToString(pub)
		}
	}

	// ---- wallet.txt: "# ..." lines and "address label" lines
	got := listLines(string(t1))
	if len(got) != len(want) {
		x.fail("listing-count", fmt.Sprintf("`wallet -l` lists %d keys, the configuration asks for %d (%d sub-accounts x keycnt %d)", len(got), len(want), c.Nsubs, cf.Keycnt), string(t1))
		return
	}
	for i := range want {
		if got[i] != want[i] {
			x.fail("address-mismatch:"+f.A, fmt.Sprintf("position %d (%s): the wallet lists %s, the key of this position (%s) has address %s",
				i, termStr(c.Out.Keys[i]), got[i], hex.EncodeToString(pubs[i]), want[i]), nil)
			return
		}
	}
	add(&st.Keys, len(want))

	// ---- -dump *: the private key behind every position
	rd, err := x.exec("-dump", "*")
	x.log = append(x.log, rd)
	if err != nil {
		infra("line %d: %v", x.line, err)
		return
	}
	var dump [][]string
	for _, ln := range strings.Split(rd.Stdout, "\n") {
		fl := strings.Fields(ln)
		for len(fl) >= 2 && !(len(fl[0]) >= 50 && len(fl[0]) <= 53) { // (a prompt may precede the first line in a console dialogue)
			fl = fl[1:]
		}
		if len(fl) >= 2 && !strings.Contains(ln, "config file") {
			dump = append(dump, fl)
		}
	}
	if len(dump) != len(privs) {
		x.fail("dump-count", fmt.Sprintf("`wallet -dump *` prints %d keys, %d are listed", len(dump), len(privs)), rd.Stdout)
		return
	}
	for i, d := range dump {
		wif := refhd.B58CheckEncode(append(append([]byte{byte(f.Wif)}, privs[i]...), 1))
		if d[0] != wif {
			pv, _, _, derr := refhd.WIFDecode(d[0])
			x.fail("wif-mismatch", fmt.Sprintf("position %d (%s): the wallet exports %s (key %x, %v), the term evaluates to key %x = %s", i, termStr(c.Out.Keys[i]), d[0], pv, derr, privs[i], wif), nil)
			return
		}
		if d[1] != p2pkh[i] {
			x.fail("dump-address", fmt.Sprintf("position %d: -dump shows address %s for the key whose P2PKH address is %s", i, d[1], p2pkh[i]), nil)
			return
		}
		// re-import through the library
		pa, derr := btc.DecodePrivateAddr(d[0])
		if derr != nil || !bytes.Equal(pa.Key, privs[i]) || pa.BtcAddr.String() != p2pkh[i] || !bytes.Equal(pa.BtcAddr.Pubkey, pubs[i]) {
			x.fail("reimport-wif", fmt.Sprintf("position %d: btc.DecodePrivateAddr(%s) does not give back the key / public key / address (%v)", i, d[0], derr), nil)
			return
		}
	}
	add(&st.Reimports, len(dump))

	// ---- re-import through the binary: the exported keys as .others of another wallet
	if variant%4 == 0 || len(privs) <= 2 {
		d2 := x.dir + "-imp"
		os.RemoveAll(d2)
		os.MkdirAll(d2, 0o700)
		n := len(dump)
		if n > 3 {
			n = 3
		}
		var ob strings.Builder
		for i := 0; i < n; i++ {
			fmt.Fprintf(&ob, "%s imported %d\n", dump[i][0], i)
		}
		tn := ""
		if cf.Testnet {
			tn = "testnet=true\n"
		}
		os.WriteFile(filepath.Join(d2, "wallet.cfg"), []byte("type=3\nkeycnt=1\n"+tn), 0o600)
		os.WriteFile(filepath.Join(d2, ".secret"), []byte("another wallet"), 0o600)
		os.WriteFile(filepath.Join(d2, ".others"), []byte(ob.String()), 0o600)
		ri, err := runWallet(d2, "", "-l", "-atype", cf.Atype)
		x.log = append(x.log, ri)
		if err != nil {
			infra("line %d: %v", x.line, err)
			return
		}
		ti, _ := os.ReadFile(filepath.Join(d2, "wallet.txt"))
		gi := listLines(string(ti))
		if len(gi) != n+1 {
			x.fail("reimport-binary", fmt.Sprintf("a wallet with %d exported keys in .others lists %d lines (exit %d)", n, len(gi), ri.Code), string(ti))
			return
		}
		for i := 0; i < n; i++ {
			if gi[i] != want[i] {
				x.fail("reimport-binary", fmt.Sprintf("exported key %d re-imported through .others is listed as %s, it was listed as %s", i, gi[i], want[i]), nil)
				return
			}
		}
		add(&st.Reimports, n)
		os.RemoveAll(d2)
	}

	// ---- type 4: extended keys
	if cf.Wt != 4 {
		return
	}
	var xl []XLine
	for _, ln := range strings.Split(string(t1), "\n") {
		m := reX.FindStringSubmatch(ln)
		if m != nil {
			xl = append(xl, XLine{m[1], m[2]})
		}
	}
	if len(xl) != len(c.Out.Xpubs) {
		x.fail("xpub-lines", fmt.Sprintf("the listing shows extended public keys %v, hdpath %s calls for %v", tags(xl), pathStr(c.Path), xtags(c.Out.Xpubs)), string(t1))
		return
	}
	xpubStr := make([]string, len(xl))
	for i, xr := range c.Out.Xpubs {
		xk, er := walk(xr.Path)
		if er != nil {
			infra("line %d: evaluator: %v", x.line, er)
			return
		}
		w := xk.Serialize(verOf[f.Xpub], false)
		if xl[i].Tag != xr.Tag || xl[i].Str != w {
			x.fail("xpub-mismatch:"+xr.Tag, fmt.Sprintf("line %d of the extended keys: the wallet shows %s: %s, BIP32 gives %s: %s for %s", i, xl[i].Tag, xl[i].Str, xr.Tag, w, pathStr(xr.Path)), nil)
			return
		}
		xpubStr[i] = xl[i].Str
	}
	add(&st.Xkeys, len(xl))

	rx, err := x.exec("-xprv")
	x.log = append(x.log, rx)
	if err != nil {
		infra("line %d: %v", x.line, err)
		return
	}
	var xp []XLine
	for _, m := range reXp.FindAllStringSubmatch(rx.Stdout, -1) { // (in a console dialogue a line may follow a prompt without a line break)
		xp = append(xp, XLine{m[1], m[2]})
	}
	if len(xp) != len(c.Out.Xprvs) {
		x.fail("xprv-lines", fmt.Sprintf("`wallet -xprv` prints %v, expected %v", tags(xp), xtags(c.Out.Xprvs)), rx.Stdout)
		return
	}
	for i, xr := range c.Out.Xprvs {
		xk, _ := walk(xr.Path)
		w := xk.Serialize(verOf[f.Xprv], true)
		if xp[i].Tag != xr.Tag || xp[i].Str != w {
			x.fail("xprv-mismatch:"+xr.Tag, fmt.Sprintf("`wallet -xprv` shows %s: %s, BIP32 gives %s: %s for %s", xp[i].Tag, xp[i].Str, xr.Tag, w, pathStr(xr.Path)), nil)
			return
		}
		// re-import: the string parses back to the same node, and deriving the listed keys from it gives the listed keys
		hw, er := btc.StringWallet(xp[i].Str)
		if er != nil || !bytes.Equal(hw.Key[1:], xk.Priv) || !bytes.Equal(hw.ChCode, xk.Chain) || int(hw.Depth) != len(xr.Path)%256 {
			x.fail("reimport-xprv", fmt.Sprintf("btc.StringWallet(%s) does not give back the node %s (%v)", xp[i].Str, pathStr(xr.Path), er), nil)
			return
		}
		for j, k := range c.Out.Keys {
			if j >= 4 || !isPrefix(xr.Path, k.Path) {
				continue
			}
			cw := hw
			for _, e := range k.Path[len(xr.Path):] {
				cw = cw.Child(e.idx())
			}
			if !bytes.Equal(cw.Key[1:], privs[j]) {
				x.fail("reimport-xprv", fmt.Sprintf("deriving %s from the re-imported %s key gives %x, the listed key is %x", pathStr(k.Path), xr.Tag, cw.Key[1:], privs[j]), nil)
				return
			}
			add(&st.Reimports, 1)
		}
	}
	add(&st.Xkeys, len(xp))

	// ---- public derivation must commute with the private one for every pair the model names
	for _, v := range c.Out.Via {
		j, xi := v[0]-1, v[1]-1
		k := c.Out.Keys[j]
		xr := c.Out.Xpubs[xi]
		// (a) the evaluator: CKDpub along the remaining elements
		xk, _ := walk(xr.Path)
		pk := xk.Neuter()
		hw, er := btc.StringWallet(xpubStr[xi])
		if er != nil {
			x.fail("pubderiv", fmt.Sprintf("btc.StringWallet(%s): %v", xpubStr[xi], er), nil)
			return
		}
		for _, e := range k.Path[len(xr.Path):] {
			if pk, er = pk.CKDpub(e.idx()); er != nil {
				infra("line %d: evaluator: %v", x.line, er)
				return
			}
			hw = hw.Child(e.idx())
		}
		if !bytes.Equal(pk.Pub, pubs[j]) {
			infra("line %d: evaluator: CKDpub and CKDpriv disagree for %s", x.line, pathStr(k.Path))
			return
		}
		// (b) the code: btc.HDWallet public derivation from the string the wallet printed
		if !bytes.Equal(hw.Key, pubs[j]) {
			x.fail("pubderiv-mismatch", fmt.Sprintf("public derivation of %s from the listed %s key (%s) gives %x, the listed private key has public key %x",
				pathStr(k.Path), xr.Tag, xpubStr[xi], hw.Key, pubs[j]), nil)
			return
		}
		if f.A == "p2kh" || f.A == "segwit" || f.A == "bech32" {
			if a := hw.PubAddr().String(); a != want[j] {
				x.fail("pubderiv-address", fmt.Sprintf("HDWallet.PubAddr of the publicly derived %s is %s, the wallet lists %s", pathStr(k.Path), a, want[j]), nil)
				return
			}
		}
		add(&st.PubDeriv, 1)
	}

	// ---- -words
	if sd.K == "bip39" || sd.K == "mnemonic" {
		rw, err := x.exec("-words")
		x.log = append(x.log, rw)
		if err != nil {
			infra("line %d: %v", x.line, err)
			return
		}
		var ws []string
		for _, m := range reWord.FindAllStringSubmatch(rw.Stdout, -1) {
			ws = append(ws, m[2])
		}
		if strings.Join(ws, " ") != mnemonic {
			x.fail("words-mismatch", fmt.Sprintf("`wallet -words` shows %q, BIP39 gives %q", strings.Join(ws, " "), mnemonic), rw.Stdout)
			return
		}
		add(&st.Words, 1)
	}
}

// what is typed on stdin for a passphrase class, and the passphrase the wallet must feed to BIP39
func passphraseOf(class string, line int) (typed, want string) {
	switch class {
	case "pass":
		want = fmt.Sprintf("TREZOR %d", line)
	case "pass_space":
		want = " "
	case "pass_lead":
		want = fmt.Sprintf("  lead%d", line)
	case "pass_trail":
		want = fmt.Sprintf("trail%d  ", line)
	case "pass_tab":
		want = fmt.Sprintf("\ttab\t%d", line)
		return want + "\t\n", want // a trailing tab is a control character: the console reader drops it
	case "pass_nl":
		want = fmt.Sprintf("crlf%d ", line)
		return want + "\r\n", want
	case "pass_inner":
		want = fmt.Sprintf("in  ner   %d", line)
	case "pass_nonascii":
		want = fmt.Sprintf("\xc5\xbc\xc3\xb3\xf0\x9f\x94\x91 %d\xc2\xa0", line)
	default:
		panic("passphraseOf " + class)
	}
	return want + "\n", want
}

// passphrases of the API-level BIP39 cases: used verbatim by PBKDF2, whatever they contain
var apiPassphrases = []string{"", " ", "  ", "TREZOR", "TREZOR ", " TREZOR", "\tTREZOR", "TREZOR\n", "TREZOR\r\n", "\n", "in ner", "tr\xc3\xa9zor\xc2\xa0", "\xff\x00\x01"}

type XLine struct{ Tag, Str string }

var reX = regexp.MustCompile(`^# (Root|Prnt|Leaf): ([1-9A-HJ-NP-Za-km-z]+)\s*$`)
var reXp = regexp.MustCompile(`(?m)\b(Root|Leaf): ([1-9A-HJ-NP-Za-km-z]+)\s*$`)
var reWord = regexp.MustCompile(`\s(\d+): ([a-z]+)`)
var reTook = regexp.MustCompile(`took [^\n]*`)

func stripTimes(s string) string { return reTook.ReplaceAllString(s, "took X") }

func tags(x []XLine) (r []string) {
	for _, l := range x {
		r = append(r, l.Tag)
	}
	return
}
func xtags(x []XRef) (r []string) {
	for _, l := range x {
		r = append(r, l.Tag+"="+pathStr(l.Path))
	}
	return
}

func isPrefix(a, b []Elem) bool {
	if len(a) > len(b) {
		return false
	}
	for i := range a {
		if a[i] != b[i] {
			return false
		}
	}
	return true
}

func termStr(k Key) string {
	if k.K == "t3" {
		return fmt.Sprintf("type-3 key %d", k.I)
	}
	return pathStr(k.Path)
}

// first column of the non-comment lines of wallet.txt
func listLines(t string) (r []string) {
	for _, ln := range strings.Split(t, "\n") {
		ln = strings.TrimSpace(ln)
		if ln == "" || ln[0] == '#' {
			continue
		}
		r = append(r, strings.SplitN(ln, " ", 2)[0])
	}
	return
}

// ---------------------------------------------------------------- BIP39 bit-level cases

func bip39Case(c *Case, line int) {
	add(&st.Bip39, 1)
	fail := func(sig, what string) {
		out.Put(Fail{Sig: "C14:" + sig, What: what, Line: line})
		add(&st.Fail, 1)
	}
	ent := make([]byte, len(c.E.Ent))
	for i, b := range c.E.Ent {
		ent[i] = byte(b)
	}
	// the model's inputs must be what they claim to be
	if int(refhd.Sha256(ent)[0]) != c.E.Cs {
		infra("line %d: checksum byte of the entropy table is wrong", line)
		return
	}
	ws := make([]string, len(c.Indices))
	for i, ix := range c.Indices {
		if ix < 0 || ix > 2047 {
			infra("line %d: model index %d out of range", line, ix)
			return
		}
		ws[i] = refhd.Words[ix]
	}
	want := strings.Join(ws, " ")
	if m, _ := refhd.Mnemonic(ent); m != want {
		infra("line %d: model and evaluator disagree about the BIP39 layout: %q vs %q", line, want, m)
		return
	}
	got, err := bip39.NewMnemonic(ent)
	if err != nil || got != want {
		fail("bip39-mnemonic", fmt.Sprintf("bip39.NewMnemonic(%x) = %q (%v), BIP39 gives %q", ent, got, err, want))
		return
	}
	back, err := bip39.EntropyFromMnemonic(want)
	if err != nil || !bytes.Equal(back, ent) {
		fail("bip39-entropy", fmt.Sprintf("bip39.EntropyFromMnemonic(%q) = %x (%v), the entropy is %x", want, back, err, ent))
		return
	}
	raw, err := bip39.MnemonicToByteArray(want, true)
	if err != nil || !bytes.Equal(raw[len(raw)-len(ent):], ent) {
		fail("bip39-entropy", fmt.Sprintf("bip39.MnemonicToByteArray(%q, raw) = %x (%v), the entropy is %x", want, raw, err, ent))
		return
	}
	for _, pass := range append([]string{fmt.Sprintf("p%d", line)}, apiPassphrases...) {
		ws := refhd.MnemonicSeed(want, pass)
		sd, err := bip39.NewSeedWithErrorChecking(want, pass)
		if err != nil || !bytes.Equal(sd, ws) {
			fail("bip39-seed", fmt.Sprintf("bip39.NewSeedWithErrorChecking(%q, %q) = %x (%v), PBKDF2-HMAC-SHA512(mnemonic, \"mnemonic\" + passphrase) gives %x", want, pass, sd, err, ws))
			return
		}
		if sd = bip39.NewSeed(want, pass); !bytes.Equal(sd, ws) {
			fail("bip39-seed", fmt.Sprintf("bip39.NewSeed(%q, %q) = %x, PBKDF2-HMAC-SHA512(mnemonic, \"mnemonic\" + passphrase) gives %x", want, pass, sd, ws))
			return
		}
	}
	// every single-word substitution at a few positions: accepted exactly when the checksum still holds
	for k := 0; k < 6; k++ {
		pos := prn(len(ws), "subpos", salt, line, k)
		alt := append([]string{}, ws...)
		alt[pos] = refhd.Words[prn(2048, "subword", salt, line, k)]
		s := strings.Join(alt, " ")
		_, werr := refhd.MnemonicEntropy(s)
		_, gerr := bip39.NewSeedWithErrorChecking(s, "")
		if (werr == nil) != (gerr == nil) {
			fail("bip39-validation", fmt.Sprintf("mnemonic %q: BIP39 checksum valid = %v, bip39.NewSeedWithErrorChecking error = %v", s, werr == nil, gerr))
			return
		}
		if bip39.IsMnemonicValid(s) == nil != (werr == nil) {
			fail("bip39-validation", fmt.Sprintf("mnemonic %q: BIP39 checksum valid = %v, bip39.IsMnemonicValid disagrees", s, werr == nil))
			return
		}
	}
	// a word less / a word more is never a mnemonic
	if _, err := bip39.NewSeedWithErrorChecking(strings.Join(ws[1:], " "), ""); err == nil {
		fail("bip39-validation", "a mnemonic with a word removed is accepted")
	}
}

// ---------------------------------------------------------------- prep / vectors / sweep

func prep(args []string) {
	fs := flag.NewFlagSet("prep", flag.ExitOnError)
	outp := fs.String("out", "hd_enttable.json", "")
	fs.IntVar(&salt, "salt", 1, "")
	per := fs.Int("per", 2, "random entropies per size")
	fs.Parse(args)
	type E struct {
		Ent []int `json:"ent"`
		Cs  int   `json:"cs"`
	}
	var t []E
	for _, n := range []int{16, 20, 24, 28, 32} {
		pats := [][]byte{make([]byte, n), bytes.Repeat([]byte{0xff}, n), append([]byte{0x80}, make([]byte, n-1)...), bytes.Repeat([]byte{0x7f}, n)}
		for k := 0; k < *per; k++ {
			pats = append(pats, prb(n, "ent", salt, n, k))
		}
		for _, p := range pats {
			e := E{Cs: int(refhd.Sha256(p)[0])}
			for _, b := range p {
				e.Ent = append(e.Ent, int(b))
			}
			t = append(t, e)
		}
	}
	b, _ := json.Marshal(t)
	if err := os.WriteFile(*outp, b, 0o644); err != nil {
		fmt.Fprintln(os.Stderr, err)
		os.Exit(2)
	}
}

func vectors(args []string) {
	fs := flag.NewFlagSet("vectors", flag.ExitOnError)
	repo := fs.String("repo", "/repo", "")
	fs.Parse(args)
	res := map[string]interface{}{"summary": true}
	var fails []string
	sf, n := refhd.SelfTest()
	fails = append(fails, sf...)
	// BIP32 vectors 1 and 2 as they stand in lib/btc/wallethd_test.go: names spell the path (m_0p_1_2p_pub1 = m/0'/1/2')
	src, err := os.ReadFile(filepath.Join(*repo, "lib/btc/wallethd_test.go"))
	if err != nil {
		fails = append(fails, err.Error())
	}
	re := regexp.MustCompile(`(?m)^\s*(masterhex|m[_0-9p]*_(?:pub|prv))([12])\s+string\s*=\s*"([^"]+)"`)
	seeds := map[string]string{}
	type ent struct{ name, set, val string }
	var ents []ent
	for _, m := range re.FindAllStringSubmatch(string(src), -1) {
		if m[1] == "masterhex" {
			seeds[m[2]] = m[3]
		} else {
			ents = append(ents, ent{m[1], m[2], m[3]})
		}
	}
	nb32 := 0
	for _, e := range ents {
		sh, _ := hex.DecodeString(seeds[e.set])
		k, err := refhd.Master(sh)
		if err != nil {
			fails = append(fails, "master "+e.set)
			continue
		}
		parts := strings.Split(e.name, "_")
		priv := parts[len(parts)-1] == "prv"
		for _, p := range parts[1 : len(parts)-1] {
			h := strings.HasSuffix(p, "p")
			v := new(big.Int)
			v.SetString(strings.TrimSuffix(p, "p"), 10)
			i := uint32(v.Uint64())
			if h {
				i |= 0x80000000
			}
			if k, err = k.CKDpriv(i); err != nil {
				fails = append(fails, e.name+e.set+": "+err.Error())
				break
			}
		}
		if err != nil {
			continue
		}
		var s string
		if priv {
			s = k.Serialize(refhd.VerXprv, true)
		} else {
			s = k.Serialize(refhd.VerXpub, false)
		}
		nb32++
		if s != e.val {
			fails = append(fails, fmt.Sprintf("BIP32 vector %s%s: evaluator gives %s, the repository's test has %s", e.name, e.set, s, e.val))
		}
	}
	if nb32 < 20 {
		fails = append(fails, fmt.Sprintf("only %d BIP32 vectors found in wallethd_test.go", nb32))
	}
	// BIP39 vectors of lib/others/bip39/bip39_test.go (passphrase TREZOR)
	src, err = os.ReadFile(filepath.Join(*repo, "lib/others/bip39/bip39_test.go"))
	if err != nil {
		fails = append(fails, err.Error())
	}
	re39 := regexp.MustCompile(`entropy:\s*"([0-9a-f]+)",\s*mnemonic:\s*"([a-z ]+)",\s*seed:\s*"([0-9a-f]+)"`)
	nb39 := 0
	for _, m := range re39.FindAllStringSubmatch(string(src), -1) {
		e, _ := hex.DecodeString(m[1])
		mn, err := refhd.Mnemonic(e)
		nb39++
		if err != nil || mn != m[2] {
			fails = append(fails, fmt.Sprintf("BIP39 vector %s: evaluator gives %q", m[1], mn))
			continue
		}
		if s := hex.EncodeToString(refhd.MnemonicSeed(mn, "TREZOR")); s != m[3] {
			fails = append(fails, fmt.Sprintf("BIP39 vector %s: evaluator's seed %s", m[1], s))
		}
		if back, err := refhd.MnemonicEntropy(mn); err != nil || !bytes.Equal(back, e) {
			fails = append(fails, fmt.Sprintf("BIP39 vector %s: inverse fails", m[1]))
		}
	}
	if nb39 < 20 {
		fails = append(fails, fmt.Sprintf("only %d BIP39 vectors found in bip39_test.go", nb39))
	}
	res["selftest_checks"] = n
	res["bip32_vectors"] = nb32
	res["bip39_vectors"] = nb39
	res["fails"] = fails
	b, _ := json.Marshal(res)
	fmt.Println(string(b))
}

func sweep(args []string) {
	fs := flag.NewFlagSet("sweep", flag.ExitOnError)
	n := fs.Int("n", 50000, "secrets judged by the evaluator")
	pre := fs.Int("pre", 0, "further secrets through the consistency screen")
	hd := fs.Int("hd", 200, "HD parents")
	workers := fs.Int("workers", 8, "")
	fs.IntVar(&salt, "salt", 1, "")
	fs.StringVar(&walletBin, "wallet", "", "")
	fs.StringVar(&base, "dir", "", "")
	fs.Parse(args)
	out = vio.NewOut()
	st.Sweep = map[string]int{}
	var mu sync.Mutex
	var bad [][]byte
	reported := 0
	judge := func(priv []byte, how string) {
		got := btc.PublicFromPrivate(priv, true)
		want := refhd.PubFromPriv(priv, true)
		if want == nil {
			return
		}
		if !bytes.Equal(got, want) {
			mu.Lock()
			bad = append(bad, append([]byte{}, priv...))
			st.Sweep["public_key_mismatches"]++
			rep := reported < 5
			reported++
			mu.Unlock()
			if rep {
				unc := btc.PublicFromPrivate(priv, false)
				out.Put(Fail{Sig: "C14:pubkey-parity", Line: -1, What: fmt.Sprintf("btc.PublicFromPrivate(%x, compressed) = %x, the public key of this secret is %x (uncompressed by the code: y = ..%x); found by %s",
					priv, got, want, unc[61:], how)})
				add(&st.Fail, 1)
			}
		}
	}
	var wg sync.WaitGroup
	chunk := func(total int, fn func(i int)) {
		var next int64 = -1
		for w := 0; w < *workers; w++ {
			wg.Add(1)
			go func() {
				defer wg.Done()
				for {
					i := int(atomic.AddInt64(&next, 1))
					if i >= total {
						return
					}
					fn(i)
				}
			}()
		}
		wg.Wait()
	}
	// (a) every secret judged by the evaluator
	chunk(*n, func(i int) {
		judge(prb(32, "sweep", salt, i), "the full sweep")
	})
	st.Sweep["secrets_judged_by_evaluator"] = *n
	// (b) screen: the code's two serialisations of the same point must agree; every disagreement goes to the evaluator
	chunk(*pre, func(i int) {
		p := prb(32, "screen", salt, i)
		c := btc.PublicFromPrivate(p, true)
		u := btc.PublicFromPrivate(p, false)
		if c == nil || u == nil || (c[0] == 3) != (u[64]&1 == 1) || !bytes.Equal(c[1:], u[1:33]) {
			mu.Lock()
			st.Sweep["screen_hits"]++
			mu.Unlock()
			judge(p, "the consistency screen")
		}
	})
	st.Sweep["secrets_screened"] = *pre
	// (c) what such a key does to the wallet: imported through .others, listed without (-q) and with the key check
	if len(bad) > 0 && walletBin != "" {
		sort.Slice(bad, func(i, j int) bool { return bytes.Compare(bad[i], bad[j]) < 0 })
		priv := bad[0]
		d := filepath.Join(base, "badkey")
		os.RemoveAll(d)
		os.MkdirAll(d, 0o700)
		os.WriteFile(filepath.Join(d, "wallet.cfg"), []byte("type=3\nkeycnt=1\n"), 0o600)
		os.WriteFile(filepath.Join(d, ".secret"), []byte("x"), 0o600)
		os.WriteFile(filepath.Join(d, ".others"), []byte(refhd.WIF(priv, false, true)+" the key\n"), 0o600)
		rq, err := runWallet(d, "", "-l", "-q")
		if err == nil {
			t, _ := os.ReadFile(filepath.Join(d, "wallet.txt"))
			ll := listLines(string(t))
			want := refhd.AddrP2PKH(refhd.PubFromPriv(priv, true), false)
			rv, _ := runWallet(d, "", "-l")
			if len(ll) > 0 && ll[0] != want {
				out.Put(Fail{Sig: "C14:pubkey-parity", Line: -1, Cmds: [][]string{rq.Cmd, rv.Cmd},
					What: fmt.Sprintf("wallet with the key %x (WIF %s) in .others: `wallet -l -q` lists %s, the address of this key is %s; `wallet -l` (with its key check) exits %d: %s",
						priv, refhd.WIF(priv, false, true), ll[0], want, rv.Code, strings.TrimSpace(tail(rv.Stderr, 120)))})
				add(&st.Fail, 1)
			}
		}
	}
	// (d) HD derivation through the library against the evaluator, incl. children with leading zero bytes
	var lz, lzh int64
	chunk(*hd, func(i int) {
		m, err := refhd.Master(prb(16+i%49, "hdseed", salt, i))
		if err != nil {
			return
		}
		gw := btc.MasterKey(prb(16+i%49, "hdseed", salt, i), i%2 == 1)
		if !bytes.Equal(gw.Key[1:], m.Priv) || !bytes.Equal(gw.ChCode, m.Chain) {
			out.Put(Fail{Sig: "C14:hd-master", Line: -1, What: fmt.Sprintf("btc.MasterKey differs from BIP32 for seed %x", prb(16+i%49, "hdseed", salt, i))})
			add(&st.Fail, 1)
			return
		}
		idxs := []uint32{0, 1, 2, 0x7fffffff, 0x7ffffffe, 0x80000000, 0x80000001, 0xffffffff, uint32(prn(1<<31, "i", salt, i)), 0x80000000 | uint32(prn(1<<31, "j", salt, i))}
		// search: a hardened child whose key starts with a zero byte, a child whose HASH160 starts with a zero byte
		for j := uint32(0); j < 3000; j++ {
			I := refhd.HmacSha512(m.Chain, []byte{0}, m.Priv, []byte{0x80 | byte(j>>24), byte(j >> 16), byte(j >> 8), byte(j)})
			k := new(big.Int).Add(new(big.Int).SetBytes(I[:32]), new(big.Int).SetBytes(m.Priv))
			k.Mod(k, refhd.N)
			if k.BitLen() <= 248 {
				idxs = append(idxs, 0x80000000|j)
				atomic.AddInt64(&lz, 1)
				break
			}
		}
		if i%8 == 0 {
			for j := uint32(100); j < 1200; j++ {
				ch, err := m.CKDpriv(j)
				if err == nil && refhd.Hash160(ch.Pub)[0] == 0 {
					idxs = append(idxs, j)
					atomic.AddInt64(&lzh, 1)
					break
				}
			}
		}
		gp := gw.Pub()
		mp := m.Neuter()
		for _, ix := range idxs {
			ch, err := m.CKDpriv(ix)
			if err != nil {
				continue
			}
			gc := gw.Child(ix)
			cls := func(sig string) string {
				if parityBad(m.Priv) || parityBad(ch.Priv) {
					return "C14:pubkey-parity"
				}
				return sig
			}
			if !bytes.Equal(gc.Key[1:], ch.Priv) || gc.Key[0] != 0 || len(gc.Key) != 33 || !bytes.Equal(gc.ChCode, ch.Chain) || gc.Depth != 1 || gc.I != ix {
				out.Put(Fail{Sig: cls("C14:hd-child-private"), Line: -1, What: fmt.Sprintf("HDWallet.Child(%d) of master(seed %x): key %x chain %x, BIP32 gives key %x chain %x",
					ix, prb(16+i%49, "hdseed", salt, i), gc.Key, gc.ChCode, ch.Priv, ch.Chain)})
				add(&st.Fail, 1)
				continue
			}
			if s, w := gc.String(), ch.Serialize(map[bool]uint32{false: refhd.VerXprv, true: refhd.VerTprv}[i%2 == 1], true); s != w {
				out.Put(Fail{Sig: cls("C14:hd-serialize"), Line: -1, What: fmt.Sprintf("HDWallet.String() = %s, BIP32 serialization is %s", s, w)})
				add(&st.Fail, 1)
			}
			if ix < 0x80000000 {
				pc, err := mp.CKDpub(ix)
				if err != nil {
					continue
				}
				gpc := gp.Child(ix)
				if !bytes.Equal(gpc.Key, pc.Pub) || !bytes.Equal(gpc.Key, ch.Pub) || !bytes.Equal(gpc.ChCode, ch.Chain) {
					out.Put(Fail{Sig: cls("C14:hd-child-public"), Line: -1, What: fmt.Sprintf("Pub().Child(%d) of master(seed %x) = %x, the public key of the private child is %x",
						ix, prb(16+i%49, "hdseed", salt, i), gpc.Key, ch.Pub)})
					add(&st.Fail, 1)
				}
				if pk := gc.Pub(); !bytes.Equal(pk.Key, ch.Pub) {
					out.Put(Fail{Sig: cls("C14:hd-pub"), Line: -1, What: fmt.Sprintf("Child(%d).Pub() = %x, the public key is %x", ix, pk.Key, ch.Pub)})
					add(&st.Fail, 1)
				}
			}
			mu.Lock()
			st.Sweep["hd_children_compared"]++
			mu.Unlock()
		}
	})
	st.Sweep["hd_parents"] = *hd
	st.Sweep["children_with_leading_zero_key"] = int(lz)
	st.Sweep["children_with_leading_zero_hash160"] = int(lzh)
	st.Runs = runs
	out.Put(st)
	out.Flush()
}

// ---------------------------------------------------------------- main

func main() {
	if len(os.Args) < 2 {
		fmt.Fprintln(os.Stderr, "usage: hdpath prep|vectors|replay|sweep ...")
		os.Exit(2)
	}
	switch os.Args[1] {
	case "prep":
		prep(os.Args[2:])
		return
	case "vectors":
		vectors(os.Args[2:])
		return
	case "sweep":
		sweep(os.Args[2:])
		return
	case "replay":
	default:
		fmt.Fprintln(os.Stderr, "unknown mode", os.Args[1])
		os.Exit(2)
	}
	fs := flag.NewFlagSet("replay", flag.ExitOnError)
	in := fs.String("in", "-", "exported cases")
	fs.StringVar(&walletBin, "wallet", "", "wallet binary")
	fs.StringVar(&base, "dir", "", "scratch directory")
	fs.IntVar(&salt, "salt", 1, "seed of the concretiser's choices")
	workers := fs.Int("workers", 8, "parallel cases")
	first := fs.Int("first", 0, "number of the first case")
	fs.Parse(os.Args[2:])
	out = vio.NewOut()
	if fails, _ := refhd.SelfTest(); len(fails) > 0 {
		infra("refhd self-test fails: %s", fails[0])
		out.Put(st)
		out.Flush()
		return
	}
	type job struct {
		n    int
		line []byte
	}
	jobs := make(chan job, 64)
	var wg sync.WaitGroup
	for w := 0; w < *workers; w++ {
		wg.Add(1)
		go func(w int) {
			defer wg.Done()
			for j := range jobs {
				var c Case
				if err := json.Unmarshal(j.line, &c); err != nil {
					infra("line %d: %v", j.n, err)
					continue
				}
				if c.Phase == "bip39" {
					bip39Case(&c, j.n)
				} else {
					(&lcase{c: &c, line: j.n}).run(w)
				}
			}
		}(w)
	}
	err := vio.ReadLines(*in, func(n int, line []byte) error {
		add(&st.Lines, 1)
		jobs <- job{n + *first, append([]byte{}, line...)}
		return nil
	})
	close(jobs)
	wg.Wait()
	if err != nil {
		infra("%v", err)
	}
	st.Runs = runs
	out.Put(st)
	out.Flush()
}
