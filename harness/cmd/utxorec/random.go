// Seeded random records / sets on top of the TLC-enumerated shapes, judged by the same identity oracle,
// and the chain-level scenario (chain.NewChainExt with CompressUTXO, real blocks).
package main

import (
	"bufio"
	"encoding/hex"
	"encoding/json"
	"flag"
	"fmt"
	"math/rand"
	"os"
	"os/exec"
	"path/filepath"
	"runtime"
	"sort"
	"strings"
	"sync"
	"time"

	"github.com/piotrnar/gocoin/lib/btc"
	"github.com/piotrnar/gocoin/lib/utxo"
	"verifharness/conc"
)

func flag_(name string) *flag.FlagSet { return flag.NewFlagSet(name, flag.ExitOnError) }

var mutBases = []string{"p2pkh", "p2sh", "p2pk02", "p2pk03", "p2pk04e", "p2pk04o"}

func randScript(r *rand.Rand, k *Keys, big bool) ([]byte, string) {
	switch x := r.Intn(10); {
	case x < 5:
		for {
			cls := ClassNames[r.Intn(len(ClassNames))]
			s, _ := k.Script(cls)
			if len(s) > 65000 && !(big && r.Intn(20) == 0) {
				continue
			}
			if (cls == "p2pk04_xgep" || cls == "p2pk04_ygep") && r.Intn(8) != 0 {
				continue // sampling weight only: a record with one failing output hides its other outputs from the comparison
			}
			return s, cls
		}
	case x < 8:
		base := mutBases[r.Intn(len(mutBases))]
		s, _ := k.Script(base)
		s = append([]byte(nil), s...)
		switch r.Intn(4) {
		case 0:
			s[r.Intn(len(s))] = byte(r.Intn(256))
		case 1:
			s[r.Intn(len(s))] ^= 1 << uint(r.Intn(8))
		case 2:
			s = s[:len(s)-1-r.Intn(2)]
		case 3:
			s = append(s, byte(r.Intn(256)))
		}
		return s, "mut:" + base
	}
	var n int
	switch y := r.Intn(20); {
	case y < 14:
		n = r.Intn(81)
	case y < 19:
		n = 240 + r.Intn(21)
	default:
		n = 240 + r.Intn(21)
		if big {
			n = 65520 + r.Intn(26)
		}
	}
	s := make([]byte, n)
	r.Read(s)
	return s, "rndbytes"
}

func randAmount(r *rand.Rand) (uint64, string) {
	var v uint64
	lab := ""
	switch x := r.Intn(40); {
	case x < 29:
		nd := 1 + r.Intn(16)
		for i := 0; i < nd; i++ {
			v = v*10 + uint64(r.Intn(10))
		}
		for z := r.Intn(12); z > 0 && v < 1e15; z-- {
			if r.Intn(2) == 0 {
				v *= 10
			}
		}
		v %= 2100000000000001
		lab = "rnd-money"
	case x < 39:
		v = 2100000000000001 + uint64(r.Int63n(2000000000000000000-2100000000000001))
		if r.Intn(3) == 0 {
			v -= v % pow10u(1+r.Intn(15))
		}
		lab = "rnd-le-2e18"
	default:
		v = 1<<63 + uint64(r.Int63())
		if r.Intn(4) == 0 {
			v -= v % pow10u(1+r.Intn(18))
		}
		lab = "rnd-ge-2p63"
	}
	if !compressedFits(v) {
		lab = overflowCls
	}
	return v, lab
}

var heightPool = []uint32{0, 1, 252, 253, 254, 65535, 65536, 840000, 0x7fffffff, 0x80000000, 0xfffffffe, 0xffffffff}

func randRecord(r *rand.Rand, k *Keys, big bool, maxN int, idParts ...interface{}) *CRec {
	c := &CRec{TxID: txidOf(idParts...), CB: r.Intn(2) == 0}
	if r.Intn(3) == 0 {
		c.H = heightPool[r.Intn(len(heightPool))]
	} else {
		c.H = r.Uint32()
	}
	switch x := r.Intn(100); {
	case x < 70:
		c.N = 1 + r.Intn(6)
	case x < 90:
		c.N = 7 + r.Intn(294)
	case x < 99:
		c.N = []int{126, 127, 128, 252, 253, 254, 255, 256, 257}[r.Intn(9)]
	default:
		c.N = 65530 + r.Intn(11)
	}
	if c.N > maxN {
		c.N = 1 + c.N%maxN
	}
	idx := map[int]bool{}
	if c.N > 1000 {
		for j := r.Intn(7); j > 0; j-- {
			idx[[]int{0, 1, 252, 253, 65535, c.N - 1, r.Intn(c.N)}[r.Intn(7)]] = true
		}
	} else {
		p := []float64{0, 0.1, 0.5, 0.9, 1}[r.Intn(5)]
		for i := 0; i < c.N; i++ {
			if r.Float64() < p {
				idx[i] = true
			}
		}
	}
	var is []int
	for i := range idx {
		if i >= 0 && i < c.N {
			is = append(is, i)
		}
	}
	sort.Ints(is)
	for _, i := range is {
		s, cls := randScript(r, k, big)
		v, lab := randAmount(r)
		c.Outs = append(c.Outs, COut{I: i, V: v, Scr: s, Cls: cls, ACls: lab})
	}
	return c
}

func cmdRandom(args []string) {
	fs := flag_("random")
	seed := fs.Int64("seed", 1, "")
	n := fs.Int("n", 1000, "")
	big := fs.Bool("big", false, "")
	workers := fs.Int("workers", runtime.NumCPU(), "")
	dir := fs.String("dir", os.TempDir(), "")
	fs.Parse(args)
	k := NewKeys(*seed)
	if err := k.SelfCheck(); err != nil {
		fmt.Fprintln(os.Stderr, "concretiser self-check:", err)
		os.Exit(2)
	}
	os.MkdirAll(*dir, 0777)
	lf := filepath.Join(*dir, "random-lines.json")
	f, err := os.Create(lf)
	if err != nil {
		fmt.Fprintln(os.Stderr, err)
		os.Exit(2)
	}
	w := bufio.NewWriterSize(f, 1<<20)
	classes := map[string]int{}
	r := rand.New(rand.NewSource(*seed*1000003 + 17))
	for i := 0; i < *n; i++ {
		c := randRecord(r, k, *big, 70000, "rnd", *seed, i)
		for _, o := range c.Outs {
			classes[o.Cls]++
		}
		w.Write(concreteLine(c))
		w.WriteByte('\n')
	}
	if *big {
		// the pool of SerializeC is 30001 entries: full records around it, and the static decoder's 13107
		for i, nn := range []int{13107, 13108, 30001, 30002, 60003} {
			c := &CRec{TxID: txidOf("rndbig", *seed, i), H: uint32(800000 + i), CB: i%2 == 0, N: nn}
			for o := 0; o < nn; o++ {
				s, cls := randScript(r, k, false)
				if len(s) > 300 {
					s, cls = []byte{0x51}, "b51"
				}
				v, lab := randAmount(r)
				c.Outs = append(c.Outs, COut{I: o, V: v, Scr: s, Cls: cls, ACls: lab})
			}
			w.Write(concreteLine(c))
			w.WriteByte('\n')
		}
	}
	w.Flush()
	f.Close()
	supervise(lf, *seed, *workers, *dir, map[string]interface{}{"records": *n, "script_classes": len(classes)})
	os.Remove(lf)
}

// cmdOne: re-run the oracle on one concrete record (replay of a random failure)
func cmdOne(args []string) {
	fs := flag_("one")
	recF := fs.String("rec", "", "")
	fs.Parse(args)
	var sr SegRec
	b, err := os.ReadFile(*recF)
	if err == nil {
		err = json.Unmarshal(b, &sr)
	}
	if err != nil {
		fmt.Fprintln(os.Stderr, err)
		os.Exit(2)
	}
	u := sr.toUtxo()
	c := &CRec{TxID: u.TxID, H: u.InBlock, CB: u.Coinbase, N: sr.N}
	for i, o := range u.Outs {
		if o != nil {
			c.Outs = append(c.Outs, COut{I: i, V: o.Value, Scr: o.PKScr, Cls: "?", ACls: "?"})
		}
	}
	var mu sync.Mutex
	var nFail int64
	for _, cd := range []Codec{CodecU, CodecC} {
		for _, via := range []bool{false, true} {
			ds, enc, _ := CheckRecord(c, cd, via, defaultProbes(c))
			emitDiffs(0, "rec", cd, ds, enc, nil, &nFail, &mu)
		}
	}
	out.Put(map[string]interface{}{"summary": true, "fail": nFail})
}

// ---------------------------------------------------------------- random sets through Save / reload

func cmdSnapRand(args []string) {
	fs := flag_("snaprand")
	seed := fs.Int64("seed", 1, "")
	n := fs.Int("n", 300, "")
	big := fs.Bool("big", false, "")
	dir := fs.String("dir", os.TempDir(), "")
	fs.Parse(args)
	limitCPU(900)
	k := NewKeys(*seed)
	for _, cls := range ClassNames {
		k.Script(cls)
	}
	st := &Stats{Distinct: map[[8]byte]struct{}{}}
	var nFail, nProc int64
	var mu sync.Mutex
	var wg sync.WaitGroup
	for ci, create := range []bool{false, true} {
		wg.Add(1)
		go func(ci int, create bool) {
			defer wg.Done()
			work := filepath.Join(*dir, fmt.Sprintf("sr%d", ci))
			dbdir := filepath.Join(work, "db")
			os.RemoveAll(work)
			os.MkdirAll(dbdir, 0777)
			defer os.RemoveAll(work)
			r := rand.New(rand.NewSource(*seed*7919 + int64(ci)))
			want := map[[32]byte]*CRec{}
			height := 0
			next := 0
			scope := "snap:create=" + fmtOf(create)
			report := func(fails []Fail, where string) bool {
				seen := map[string]bool{}
				for _, f := range fails {
					if !seen[f.Sig] {
						seen[f.Sig] = true
						f.What = where + ": " + f.What
						f.Line, _ = json.Marshal(map[string]interface{}{"k": "snaprand", "seed": *seed, "n": *n, "create": fmtOf(create)})
						out.Put(f)
						mu.Lock()
						nFail++
						mu.Unlock()
					}
				}
				// differences that the record codec alone reproduces do not end the scenario (the expected sets do not
				// depend on what the code returned); anything else does
				for _, f := range fails {
					if !strings.HasPrefix(f.Sig, "C10:rec:") {
						return true
					}
				}
				return false
			}
			// one process: (optionally) reload check, then `blocks` blocks of adds and spends, dump, close
			session := func(optC bool, blocks int, perBlock int, tag string, reloaded bool) bool {
				sc := &SegScript{Dir: dbdir, OptC: optC, Gets: 2, Sparse: true}
				atOpen := copySet(want)
				before, _ := os.ReadFile(filepath.Join(dbdir, "UTXO.db"))
				for b := 0; b < blocks; b++ {
					height++
					op := SegOp{Op: "commit", Height: uint32(height), Hash: blockHash(*seed, 900+ci, height)}
					for j := 0; j < perBlock; j++ {
						c := randRecord(r, k, *big, 300, "snaprand", *seed, ci, next)
						next++
						if len(c.Outs) == 0 {
							continue
						}
						op.Recs = append(op.Recs, toSegRec(c))
						want[c.TxID] = c
					}
					sc.Ops = append(sc.Ops, op)
					// spend some outputs of one stored record (sometimes all of them)
					if len(want) > 0 && r.Intn(3) > 0 {
						ids := make([][32]byte, 0, len(want))
						for id := range want {
							ids = append(ids, id)
						}
						sort.Slice(ids, func(a, b int) bool { return string(ids[a][:]) < string(ids[b][:]) })
						id := ids[r.Intn(len(ids))]
						c := want[id]
						mask := make([]bool, c.N)
						all := r.Intn(4) == 0
						nc := &CRec{TxID: c.TxID, H: c.H, CB: c.CB, N: c.N}
						for _, o := range c.Outs {
							if all || r.Intn(2) == 0 {
								mask[o.I] = true
							} else {
								nc.Outs = append(nc.Outs, o)
							}
						}
						height++
						sc.Ops = append(sc.Ops, SegOp{Op: "spend", Height: uint32(height), Hash: blockHash(*seed, 900+ci, height), TxID: hex.EncodeToString(id[:]), Mask: mask})
						if len(nc.Outs) == 0 {
							delete(want, id)
						} else {
							want[id] = nc
						}
					}
				}
				sc.Ops = append(sc.Ops, SegOp{Op: "close"})
				dumps, err := runSeg(sc, work)
				mu.Lock()
				nProc++
				mu.Unlock()
				if err != nil {
					out.Put(Fail{Kind: "infra", What: "child: " + err.Error()})
					return true
				}
				sc2 := scope + ":live"
				if reloaded {
					sc2 = scope + ":reloaded"
				}
				// the dump after Open shows the set as it was saved; the last dump before close shows the final set
				if len(dumps) > 0 {
					st.add(1+len(dumps[0].Gets), nil)
					fl := compareSet(atOpen, &dumps[0], fmtOf(create), sc2)
					if reloaded {
						fl = relabel(fl, before, atOpen)
					}
					if report(fl, tag+" after Open") {
						return true
					}
				}
				var last *SegDump
				for i := range dumps {
					if dumps[i].Op != "close" && dumps[i].Op != "open" && dumps[i].Op != "skipped" {
						last = &dumps[i]
					}
					if dumps[i].Err != "" {
						last = &dumps[i]
						break
					}
				}
				if last != nil {
					st.add(1+len(last.Gets), nil)
					if report(compareSet(want, last, fmtOf(create), sc2), tag+" after the last block") {
						return true
					}
				}
				return false
			}
			per := *n / 6
			if per < 1 {
				per = 1
			}
			if session(create, 3, per, "process 1 (creates the database)", false) {
				return
			}
			if session(!create, 2, per, "process 2 (opened with the other CompressRecords option)", true) {
				return
			}
			if session(create, 1, per, "process 3", true) {
				return
			}
			session(!create, 0, 0, "process 4 (read only)", true)
		}(ci, create)
	}
	wg.Wait()
	out.Put(map[string]interface{}{"summary": true, "fail": nFail, "processes": nProc, "evaluations": st.Evals})
}

func copySet(m map[[32]byte]*CRec) map[[32]byte]*CRec {
	c := make(map[[32]byte]*CRec, len(m))
	for k, v := range m {
		c[k] = v
	}
	return c
}

// ---------------------------------------------------------------- through the chain API

type ChainScript struct {
	Dir      string     `json:"dir"`
	Compress bool       `json:"compress"`
	Genesis  uint32     `json:"genesis"`
	Blocks   [][]SegOut `json:"blocks"` // outputs of the coinbase of each block to mine (empty in reopen mode)
}

type ChainOut struct {
	TxIDs []string `json:"txids"`
	Dump  SegDump  `json:"dump"`
	Err   string   `json:"err"`
}

func cmdChainSeg(args []string) {
	fs := flag_("chainseg")
	scriptF := fs.String("script", "", "")
	outF := fs.String("out", "", "")
	fs.Parse(args)
	var sc ChainScript
	b, err := os.ReadFile(*scriptF)
	if err == nil {
		err = json.Unmarshal(b, &sc)
	}
	if err != nil {
		os.Exit(2)
	}
	utxo.UTXO_WRITING_TIME_TARGET = 0
	limitCPU(120)
	var res ChainOut
	func() {
		defer func() {
			if r := recover(); r != nil {
				res.Err = fmt.Sprintf("panic: %v", r)
			}
		}()
		nd := conc.OpenBare(sc.Dir, sc.Compress, sc.Genesis)
		for bi, outs := range sc.Blocks {
			var tos []*btc.TxOut
			for _, o := range outs {
				s, _ := hex.DecodeString(o.S)
				tos = append(tos, &btc.TxOut{Value: o.V, Pk_script: s})
			}
			id, e := nd.MineOuts(sc.Genesis+uint32(600*(int(nd.Ch.LastBlock().Height)+1)), bi, tos)
			if e != nil {
				res.Err = "block refused: " + e.Error()
				return
			}
			res.TxIDs = append(res.TxIDs, hex.EncodeToString(id[:]))
		}
		res.Dump = dumpDb(nd.Ch.Unspent, "chain", 8)
		nd.Close()
	}()
	jb, _ := json.Marshal(res)
	os.WriteFile(*outF, jb, 0666)
}

func runChainSeg(sc *ChainScript, work string) (*ChainOut, error) {
	sf := filepath.Join(work, "chain.json")
	of := filepath.Join(work, "chain.out")
	os.Remove(of)
	b, _ := json.Marshal(sc)
	os.WriteFile(sf, b, 0666)
	cmd := exec.Command(selfExe, "chainseg", "-script", sf, "-out", of)
	runErr := cmd.Run()
	ob, err := os.ReadFile(of)
	if err != nil {
		return &ChainOut{Err: fmt.Sprintf("the process died: %v", runErr)}, nil
	}
	var res ChainOut
	err = json.Unmarshal(ob, &res)
	return &res, err
}

func cmdChain(args []string) {
	fs := flag_("chain")
	seed := fs.Int64("seed", 1, "")
	dir := fs.String("dir", os.TempDir(), "")
	fs.Parse(args)
	limitCPU(600)
	k := NewKeys(*seed)
	genesis := uint32(time.Now().Unix()) - 5*24*3600
	var nFail, evals int64
	for ci, compress := range []bool{false, true} {
		work := filepath.Join(*dir, fmt.Sprintf("chain%d", ci))
		os.RemoveAll(work)
		os.MkdirAll(filepath.Join(work, "db"), 0777)
		// three blocks whose coinbase outputs cover the special scripts, raw scripts and look-alikes
		lists := [][]string{{"p2pkh", "p2sh", "p2pk02", "raw5"}, {"p2pk04e", "p2pk04o", "p2pk03", "p2pkh_len24", "b05", "raw0"}, {"p2wpkh", "p2pk04_offcurve", "opret40", "p2tr", "raw253"}}
		amts := []uint64{100000000, 1, 123000, 999999999, 50000, 0, 70000000}
		sc := &ChainScript{Dir: filepath.Join(work, "db"), Compress: compress, Genesis: genesis}
		var recs []*CRec
		for bi, l := range lists {
			c := &CRec{H: uint32(bi + 1), CB: true, N: len(l)}
			var outs []SegOut
			for i, cls := range l {
				s, _ := k.Script(cls)
				v := amts[(i+bi)%len(amts)]
				c.Outs = append(c.Outs, COut{I: i, V: v, Scr: s, Cls: cls, ACls: fmt.Sprint("chain/", v)})
				outs = append(outs, SegOut{I: i, V: v, S: hex.EncodeToString(s)})
			}
			sc.Blocks = append(sc.Blocks, outs)
			recs = append(recs, c)
		}
		scope := "snap:create=" + fmtOf(compress)
		line, _ := json.Marshal(map[string]interface{}{"k": "chain", "seed": *seed, "compress": compress})
		var before []byte
		judge := func(res *ChainOut, sc2 string, where string, want map[[32]byte]*CRec) bool {
			fails := []Fail{}
			if res.Err != "" {
				fails = append(fails, Fail{Sig: "C10:" + sc2 + ":" + fmtOf(compress) + ":panic", What: res.Err})
			} else {
				fails = compareSet(want, &res.Dump, fmtOf(compress), sc2)
				if strings.HasSuffix(sc2, ":reloaded") {
					fails = relabel(fails, before, want)
				}
				evals += int64(1 + len(res.Dump.Gets))
			}
			seen := map[string]bool{}
			for _, f := range fails {
				if !seen[f.Sig] {
					seen[f.Sig] = true
					f.What = "chain.NewChainExt(CompressUTXO=" + fmt.Sprint(compress) + ") " + where + ": " + f.What
					f.Line = line
					out.Put(f)
					nFail++
				}
			}
			return len(fails) > 0
		}
		res, err := runChainSeg(sc, work)
		if err != nil {
			out.Put(Fail{Kind: "infra", What: "chain child: " + err.Error()})
			nFail++
			continue
		}
		if res.Err != "" && len(res.TxIDs) < len(lists) {
			out.Put(Fail{Kind: "infra", What: "chain child could not build its blocks: " + res.Err})
			nFail++
			continue
		}
		want := map[[32]byte]*CRec{}
		for i, c := range recs {
			b, _ := hex.DecodeString(res.TxIDs[i])
			copy(c.TxID[:], b)
			want[c.TxID] = c
		}
		if !judge(res, scope+":live", "in the process that connected the blocks", want) {
			sc.Blocks = nil
			before, _ = os.ReadFile(filepath.Join(sc.Dir, "UTXO.db"))
			res2, err := runChainSeg(sc, work)
			if err != nil {
				out.Put(Fail{Kind: "infra", What: "chain child: " + err.Error()})
				nFail++
			} else {
				judge(res2, scope+":reloaded", "after Close and reopening in a new process", want)
			}
		}
		os.RemoveAll(work)
	}
	out.Put(map[string]interface{}{"summary": true, "fail": nFail, "evaluations": evals})
}
