// Concretiser of spec/UtxoRec.tla: script class -> real bytes, digit sequence -> number, abstract record -> CRec.
// secp256k1 arithmetic is the driver's own (math/big): valid keys are points found by solving the curve
// equation, non-canonical keys (x >= p, y >= p), off-curve and hybrid keys are constructed by hand.
package main

import (
	"bytes"
	"crypto/sha256"
	"encoding/binary"
	"fmt"
	"math/big"
)

var (
	curveP, _ = new(big.Int).SetString("FFFFFFFFFFFFFFFFFFFFFFFFFFFFFFFFFFFFFFFFFFFFFFFFFFFFFFFEFFFFFC2F", 16)
	big3      = big.NewInt(3)
	big7      = big.NewInt(7)
	two256    = new(big.Int).Lsh(big.NewInt(1), 256)
	two64     = new(big.Int).Lsh(big.NewInt(1), 64)
)

func b32(x *big.Int) []byte { b := make([]byte, 32); x.FillBytes(b); return b }

// rhs = x^3 + 7 mod p
func curveRHS(x *big.Int) *big.Int {
	r := new(big.Int).Exp(x, big3, curveP)
	r.Add(r, big7)
	return r.Mod(r, curveP)
}

// liftX returns the even and odd y for x (x < p), or nil when x has no point.
func liftX(x *big.Int) (even, odd *big.Int) {
	y := new(big.Int).ModSqrt(curveRHS(x), curveP)
	if y == nil {
		return nil, nil
	}
	o := new(big.Int).Sub(curveP, y)
	if y.Bit(0) == 0 {
		return y, o
	}
	return o, y
}

func onCurve(x, y *big.Int) bool {
	if x.Cmp(curveP) >= 0 || y.Cmp(curveP) >= 0 {
		return false
	}
	l := new(big.Int).Mul(y, y)
	l.Mod(l, curveP)
	return l.Cmp(curveRHS(x)) == 0
}

// onCurveReduced: is (x mod p, y mod p) a point
func onCurveReduced(x, y *big.Int) bool {
	return onCurve(new(big.Int).Mod(x, curveP), new(big.Int).Mod(y, curveP))
}

func hashN(n int, parts ...interface{}) []byte {
	var out []byte
	seedStr := fmt.Sprint(parts...)
	for ctr := 0; len(out) < n; ctr++ {
		h := sha256.Sum256([]byte(fmt.Sprintf("c10|%s|%d", seedStr, ctr)))
		out = append(out, h[:]...)
	}
	return out[:n]
}

// Keys holds the key material of one salt.
type Keys struct {
	salt         int64
	h1           []byte   // 20 bytes
	x1, y1e, y1o *big.Int // a valid point, both y
	x2           *big.Int // x < p with no point
	x3           *big.Int // x >= p (for the 33-byte templates)
	x4, y4       *big.Int // small x with a point, y4 even; x4 + p < 2^256
	x5, y5       *big.Int // small odd y5 with a point (x5, y5); y5 + p < 2^256
	cache        map[string][]byte
}

func NewKeys(salt int64) *Keys {
	k := &Keys{salt: salt, cache: map[string][]byte{}}
	k.h1 = hashN(20, "h1", salt)
	for i := 0; ; i++ {
		x := new(big.Int).SetBytes(hashN(32, "x1", salt, i))
		if x.Cmp(curveP) >= 0 {
			continue
		}
		if e, o := liftX(x); e != nil {
			k.x1, k.y1e, k.y1o = x, e, o
			break
		}
	}
	for i := 0; ; i++ {
		x := new(big.Int).SetBytes(hashN(32, "x2", salt, i))
		if x.Cmp(curveP) >= 0 {
			continue
		}
		if e, _ := liftX(x); e == nil {
			k.x2 = x
			break
		}
	}
	room := new(big.Int).Sub(two256, curveP) // 2^32 + 977
	k.x3 = new(big.Int).Add(curveP, new(big.Int).Mod(new(big.Int).SetBytes(hashN(8, "x3", salt)), room))
	// small x with a point
	start := new(big.Int).Mod(new(big.Int).SetBytes(hashN(8, "x4", salt)), room)
	for x := start; ; x = new(big.Int).Mod(new(big.Int).Add(x, big.NewInt(1)), room) {
		if e, _ := liftX(x); e != nil && x.Sign() > 0 {
			k.x4, k.y4 = x, e
			break
		}
	}
	// small odd y with y^2 - 7 a cube: p = 7 mod 9, so a cube root of a cubic residue c is c^((p+2)/9)
	exp := new(big.Int).Add(curveP, big.NewInt(2))
	exp.Div(exp, big.NewInt(9))
	ys := new(big.Int).Mod(new(big.Int).SetBytes(hashN(8, "y5", salt)), room)
	ys.SetBit(ys, 0, 1)
	for y := ys; ; y = new(big.Int).Mod(new(big.Int).Add(y, big.NewInt(2)), room) {
		if y.Bit(0) == 0 {
			y = new(big.Int).Add(y, big.NewInt(1))
		}
		c := new(big.Int).Mul(y, y)
		c.Sub(c, big7)
		c.Mod(c, curveP)
		x := new(big.Int).Exp(c, exp, curveP)
		if new(big.Int).Exp(x, big3, curveP).Cmp(c) == 0 && onCurve(x, y) {
			k.x5, k.y5 = x, y
			break
		}
	}
	return k
}

func cat(parts ...[]byte) []byte { return bytes.Join(parts, nil) }

func key65(pre byte, x, y *big.Int) []byte { return cat([]byte{pre}, b32(x), b32(y)) }
func key33(pre byte, x *big.Int) []byte    { return cat([]byte{pre}, b32(x)) }
func p2pk(key []byte) []byte               { return cat([]byte{byte(len(key))}, key, []byte{0xac}) }
func p2pkh(h []byte) []byte                { return cat([]byte{0x76, 0xa9, 0x14}, h, []byte{0x88, 0xac}) }
func p2sh(h []byte) []byte                 { return cat([]byte{0xa9, 0x14}, h, []byte{0x87}) }
func setb(b []byte, i int, v byte) []byte  { c := append([]byte(nil), b...); c[i] = v; return c }
func plusP(x *big.Int) *big.Int            { return new(big.Int).Add(x, curveP) }
func plus(x *big.Int, d int64) *big.Int {
	return new(big.Int).Mod(new(big.Int).Add(x, big.NewInt(d)), curveP)
}

// ClassNames in the order of spec/UtxoRec.tla ScrTab (only used for listing / random picks).
var ClassNames = []string{"p2pkh", "p2sh", "p2pkh_zero", "p2sh_ff", "p2pk02", "p2pk03", "p2pk04e", "p2pk04o", "p2pk02_nocurve", "p2pk03_nocurve",
	"p2pk02_xgep", "p2pk03_zero", "p2pk04_x4", "p2pk04_x5n", "p2pk04_xgep", "p2pk04_ygep", "p2pk04_offcurve", "p2pk04_xgep_off", "p2pk04_zero",
	"p2pk04_ff", "p2pk06e", "p2pk07o", "p2pk06_badpar", "p2pk07_offcurve",
	"p2pkh_len24", "p2pkh_len26", "p2pkh_op0", "p2pkh_op1", "p2pkh_push", "p2pkh_op23", "p2pkh_op24",
	"p2sh_len22", "p2sh_len24", "p2sh_op0", "p2sh_push", "p2sh_op22",
	"p2pk33_len34", "p2pk33_len36", "p2pk33_push", "p2pk33_pre04", "p2pk33_pre01", "p2pk33_op",
	"p2pk65_len66", "p2pk65_len68", "p2pk65_push", "p2pk65_pre05", "p2pk65_pre02", "p2pk65_op",
	"raw0", "b00", "b01", "b05", "b06", "b51", "bac", "bfd", "bff", "raw2", "raw5", "raw6", "raw20", "raw21_00", "raw33_02",
	"p2wpkh", "p2wsh", "p2tr", "opret40", "multisig1of2", "raw246", "raw247", "raw252", "raw253", "raw10000", "raw10001",
	"raw65529", "raw65530", "raw65535", "raw65536", "raw70001"}

// Script returns the bytes of a class (nil, error for an unknown class).
func (k *Keys) Script(cls string) ([]byte, error) {
	if s, ok := k.cache[cls]; ok {
		return s, nil
	}
	s, err := k.script(cls)
	if err == nil {
		k.cache[cls] = s
	}
	return s, err
}

func (k *Keys) script(cls string) ([]byte, error) {
	valid := key65(4, k.x1, k.y1e)
	switch cls {
	case "p2pkh":
		return p2pkh(k.h1), nil
	case "p2sh":
		return p2sh(k.h1), nil
	case "p2pkh_zero":
		return p2pkh(make([]byte, 20)), nil
	case "p2sh_ff":
		return p2sh(bytes.Repeat([]byte{0xff}, 20)), nil
	case "p2pk02":
		return p2pk(key33(2, k.x1)), nil
	case "p2pk03":
		return p2pk(key33(3, k.x1)), nil
	case "p2pk04e":
		return p2pk(key65(4, k.x1, k.y1e)), nil
	case "p2pk04o":
		return p2pk(key65(4, k.x1, k.y1o)), nil
	case "p2pk02_nocurve":
		return p2pk(key33(2, k.x2)), nil
	case "p2pk03_nocurve":
		return p2pk(key33(3, k.x2)), nil
	case "p2pk02_xgep":
		return p2pk(key33(2, k.x3)), nil
	case "p2pk03_zero":
		return p2pk(key33(3, new(big.Int))), nil
	case "p2pk04_x4":
		return p2pk(key65(4, k.x4, k.y4)), nil
	case "p2pk04_x5n":
		return p2pk(key65(4, k.x5, new(big.Int).Sub(curveP, k.y5))), nil
	case "p2pk04_xgep":
		return p2pk(key65(4, plusP(k.x4), k.y4)), nil
	case "p2pk04_ygep":
		return p2pk(key65(4, k.x5, plusP(k.y5))), nil
	case "p2pk04_offcurve":
		return p2pk(key65(4, k.x1, plus(k.y1e, 1))), nil
	case "p2pk04_xgep_off":
		return p2pk(key65(4, plusP(k.x4), plus(k.y4, 1))), nil
	case "p2pk04_zero":
		return p2pk(key65(4, new(big.Int), new(big.Int))), nil
	case "p2pk04_ff":
		m := new(big.Int).Sub(two256, big.NewInt(1))
		return p2pk(key65(4, m, m)), nil
	case "p2pk06e":
		return p2pk(key65(6, k.x1, k.y1e)), nil
	case "p2pk07o":
		return p2pk(key65(7, k.x1, k.y1o)), nil
	case "p2pk06_badpar":
		return p2pk(key65(6, k.x1, k.y1o)), nil
	case "p2pk07_offcurve":
		y := plus(k.y1o, 2)
		if y.Bit(0) == 0 {
			y = plus(k.y1o, 4)
		}
		return p2pk(key65(7, k.x1, y)), nil
	// look-alikes
	case "p2pkh_len24":
		return p2pkh(k.h1)[:24], nil
	case "p2pkh_len26":
		return append(p2pkh(k.h1), 0x61), nil
	case "p2pkh_op0":
		return setb(p2pkh(k.h1), 0, 0x77), nil
	case "p2pkh_op1":
		return setb(p2pkh(k.h1), 1, 0xaa), nil
	case "p2pkh_push":
		return setb(p2pkh(k.h1), 2, 0x13), nil
	case "p2pkh_op23":
		return setb(p2pkh(k.h1), 23, 0x87), nil
	case "p2pkh_op24":
		return setb(p2pkh(k.h1), 24, 0xad), nil
	case "p2sh_len22":
		return p2sh(k.h1)[:22], nil
	case "p2sh_len24":
		return append(p2sh(k.h1), 0x61), nil
	case "p2sh_op0":
		return setb(p2sh(k.h1), 0, 0xaa), nil
	case "p2sh_push":
		return setb(p2sh(k.h1), 1, 0x15), nil
	case "p2sh_op22":
		return setb(p2sh(k.h1), 22, 0x88), nil
	case "p2pk33_len34":
		return p2pk(key33(2, k.x1))[:34], nil
	case "p2pk33_len36":
		return append(p2pk(key33(3, k.x1)), 0x61), nil
	case "p2pk33_push":
		return setb(p2pk(key33(2, k.x1)), 0, 0x20), nil
	case "p2pk33_pre04":
		return p2pk(key33(4, k.x1)), nil
	case "p2pk33_pre01":
		return p2pk(key33(1, k.x1)), nil
	case "p2pk33_op":
		return setb(p2pk(key33(3, k.x1)), 34, 0xad), nil
	case "p2pk65_len66":
		return p2pk(valid)[:66], nil
	case "p2pk65_len68":
		return append(p2pk(valid), 0x61), nil
	case "p2pk65_push":
		return setb(p2pk(valid), 0, 0x40), nil
	case "p2pk65_pre05":
		return p2pk(key65(5, k.x1, k.y1o)), nil
	case "p2pk65_pre02":
		return p2pk(key65(2, k.x1, k.y1e)), nil
	case "p2pk65_op":
		return setb(p2pk(valid), 66, 0xae), nil
	case "raw0":
		return []byte{}, nil
	case "b00":
		return []byte{0x00}, nil
	case "b01":
		return []byte{0x01}, nil
	case "b05":
		return []byte{0x05}, nil
	case "b06":
		return []byte{0x06}, nil
	case "b51":
		return []byte{0x51}, nil
	case "bac":
		return []byte{0xac}, nil
	case "bfd":
		return []byte{0xfd}, nil
	case "bff":
		return []byte{0xff}, nil
	case "raw21_00":
		return setb(hashN(21, "raw21", k.salt), 0, 0x00), nil
	case "raw33_02":
		return setb(hashN(33, "raw33", k.salt), 0, 0x02), nil
	case "p2wpkh":
		return cat([]byte{0x00, 0x14}, k.h1), nil
	case "p2wsh":
		return cat([]byte{0x00, 0x20}, hashN(32, "wsh", k.salt)), nil
	case "p2tr":
		return cat([]byte{0x51, 0x20}, b32(k.x1)), nil
	case "opret40":
		return cat([]byte{0x6a, 0x26}, hashN(38, "opret", k.salt)), nil
	case "multisig1of2":
		return cat([]byte{0x51, 0x21}, key33(2, k.x1), []byte{0x21}, key33(3, k.x1), []byte{0x52, 0xae}), nil
	}
	var n int
	if _, err := fmt.Sscanf(cls, "raw%d", &n); err == nil && fmt.Sprintf("raw%d", n) == cls {
		return hashN(n, "raw", k.salt, n), nil
	}
	return nil, fmt.Errorf("unknown script class %q", cls)
}

// SelfCheck verifies with the driver's own arithmetic that every key class is what its name says.
func (k *Keys) SelfCheck() error {
	type kc struct {
		cls              string
		reducedOn, canon bool
	}
	get := func(cls string) (x, y *big.Int) {
		s, _ := k.Script(cls)
		return new(big.Int).SetBytes(s[2:34]), new(big.Int).SetBytes(s[34:66])
	}
	for _, c := range []kc{{"p2pk04e", true, true}, {"p2pk04o", true, true}, {"p2pk04_x4", true, true}, {"p2pk04_x5n", true, true},
		{"p2pk04_xgep", true, false}, {"p2pk04_ygep", true, false}, {"p2pk04_offcurve", false, false}, {"p2pk04_xgep_off", false, false},
		{"p2pk04_zero", false, false}, {"p2pk04_ff", false, false}, {"p2pk06e", true, true}, {"p2pk07o", true, true}, {"p2pk06_badpar", true, true},
		{"p2pk07_offcurve", false, false}} {
		x, y := get(c.cls)
		if onCurveReduced(x, y) != c.reducedOn {
			return fmt.Errorf("class %s: on-curve (after reduction) should be %v", c.cls, c.reducedOn)
		}
		if c.canon != onCurve(x, y) {
			return fmt.Errorf("class %s: canonical on-curve should be %v", c.cls, c.canon)
		}
	}
	_, ye := get("p2pk04e")
	_, yo := get("p2pk04o")
	if ye.Bit(0) != 0 || yo.Bit(0) != 1 {
		return fmt.Errorf("parity of the valid keys")
	}
	if e, _ := liftX(k.x2); e != nil || k.x3.Cmp(curveP) < 0 {
		return fmt.Errorf("x2 / x3 classes")
	}
	return nil
}

// digits (least significant first) -> number
func digitsToBig(d []int) *big.Int {
	v := new(big.Int)
	for i := len(d) - 1; i >= 0; i-- {
		v.Mul(v, big.NewInt(10))
		v.Add(v, big.NewInt(int64(d[i])))
	}
	return v
}

// compressedFits: does btc.CompressAmount's result, computed without wrapping, fit 64 bits (own arithmetic)
func compressedFits(v uint64) bool {
	if v == 0 {
		return true
	}
	n := new(big.Int).SetUint64(v)
	ten := big.NewInt(10)
	e := 0
	m := new(big.Int)
	for e < 9 {
		q, r := new(big.Int).QuoRem(n, ten, m)
		if r.Sign() != 0 {
			break
		}
		n = q
		e++
	}
	var x *big.Int
	if e < 9 {
		q, r := new(big.Int).QuoRem(n, ten, new(big.Int))
		x = new(big.Int).Mul(q, big.NewInt(9))
		x.Add(x, r)
		x.Sub(x, big.NewInt(1))
		x.Mul(x, ten)
		x.Add(x, big.NewInt(int64(e+1)))
	} else {
		x = new(big.Int).Mul(n, ten)
	}
	return x.Cmp(two64) < 0
}

func txidOf(parts ...interface{}) (id [32]byte) {
	copy(id[:], hashN(32, append([]interface{}{"txid"}, parts...)...))
	return
}

func u32le(v uint32) []byte { b := make([]byte, 4); binary.LittleEndian.PutUint32(b, v); return b }
