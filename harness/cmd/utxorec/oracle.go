// The identity oracle of C10: a concrete record goes through Serialize -> NewUtxoRec / FullUtxoRec /
// NewUtxoRecStatic / NewUtxoRecOwn(cbs) / OneUtxoRec in one format and must come back unchanged.
package main

import (
	"bytes"
	"crypto/sha256"
	"encoding/hex"
	"fmt"
	"sort"
	"sync"

	"github.com/piotrnar/gocoin/lib/btc"
	"github.com/piotrnar/gocoin/lib/utxo"
)

type COut struct {
	I    int
	V    uint64
	Scr  []byte
	Cls  string // script class (signature)
	ACls string // amount class (signature)
}

type CRec struct {
	TxID [32]byte
	H    uint32
	CB   bool
	N    int
	Outs []COut // ascending I
}

func (c *CRec) Build() *utxo.UtxoRec {
	r := &utxo.UtxoRec{TxID: c.TxID, InBlock: c.H, Coinbase: c.CB, Outs: make([]*utxo.UtxoTxOut, c.N)}
	for _, o := range c.Outs {
		r.Outs[o.I] = &utxo.UtxoTxOut{Value: o.V, PKScr: append([]byte(nil), o.Scr...)}
	}
	return r
}

func (c *CRec) Find(i int) *COut {
	k := sort.Search(len(c.Outs), func(j int) bool { return c.Outs[j].I >= i })
	if k < len(c.Outs) && c.Outs[k].I == i {
		return &c.Outs[k]
	}
	return nil
}

// Codec is one record format, reached either directly or through the package-level function variables.
type Codec struct {
	Fmt       string
	Serialize func(*utxo.UtxoRec, []byte) *[]byte
	Own       func([]byte, *utxo.UtxoRec, *utxo.NewUtxoOutAllocCbs)
	One       func([]byte, uint32) *btc.TxOut
}

var (
	CodecU = Codec{"U", utxo.SerializeU, utxo.NewUtxoRecOwnU, utxo.OneUtxoRecU}
	CodecC = Codec{"C", utxo.SerializeC, utxo.NewUtxoRecOwnC, utxo.OneUtxoRecC}
	varsMu sync.Mutex // the function variables and the static decoder are process-global
)

func setVars(c Codec) {
	utxo.Serialize, utxo.NewUtxoRecOwn, utxo.OneUtxoRec = c.Serialize, c.Own, c.One
}

type Diff struct {
	Field string // txid height coinbase count slot value script nilbuf panic input bytes
	Cls   string
	What  string
}

func short(b []byte) string {
	if len(b) > 200 {
		return fmt.Sprintf("%x..(%d bytes, sha256 %x)", b[:80], len(b), sha256.Sum256(b))
	}
	return hex.EncodeToString(b)
}

func compareRec(want *CRec, got *utxo.UtxoRec, via string) (ds []Diff) {
	if got == nil {
		return []Diff{{"nilrec", "", via + ": decoder returned nil"}}
	}
	if got.TxID != want.TxID {
		ds = append(ds, Diff{"txid", "", fmt.Sprintf("%s: txid %x, stored %x", via, got.TxID, want.TxID)})
	}
	if got.InBlock != want.H {
		ds = append(ds, Diff{"height", "", fmt.Sprintf("%s: height %d, stored %d", via, got.InBlock, want.H)})
	}
	if got.Coinbase != want.CB {
		ds = append(ds, Diff{"coinbase", "", fmt.Sprintf("%s: coinbase %v, stored %v", via, got.Coinbase, want.CB)})
	}
	if len(got.Outs) != want.N {
		ds = append(ds, Diff{"count", "", fmt.Sprintf("%s: %d output slots, stored %d", via, len(got.Outs), want.N)})
		return
	}
	k := 0
	for i, o := range got.Outs {
		var w *COut
		if k < len(want.Outs) && want.Outs[k].I == i {
			w = &want.Outs[k]
			k++
		}
		switch {
		case w == nil && o != nil:
			ds = append(ds, Diff{"slot", "", fmt.Sprintf("%s: spent output %d came back (value %d script %s)", via, i, o.Value, short(o.PKScr))})
		case w != nil && o == nil:
			ds = append(ds, Diff{"slot", w.Cls, fmt.Sprintf("%s: unspent output %d is gone", via, i)})
		case w != nil:
			if o.Value != w.V {
				ds = append(ds, Diff{"value", w.ACls, fmt.Sprintf("%s: output %d value %d, stored %d", via, i, o.Value, w.V)})
			}
			if !bytes.Equal(o.PKScr, w.Scr) {
				ds = append(ds, Diff{"script", w.Cls, fmt.Sprintf("%s: output %d script %s, stored %s", via, i, short(o.PKScr), short(w.Scr))})
			}
		}
		if len(ds) > 6 {
			return
		}
	}
	return
}

func compareOne(want *CRec, vout uint32, got *btc.TxOut, via string) (ds []Diff) {
	var w *COut
	if int64(vout) < int64(want.N) {
		w = want.Find(int(vout))
	}
	switch {
	case w == nil && got != nil:
		ds = append(ds, Diff{"slot", "", fmt.Sprintf("%s(%d): spent / absent output came back (value %d script %s)", via, vout, got.Value, short(got.Pk_script))})
	case w != nil && got == nil:
		ds = append(ds, Diff{"slot", w.Cls, fmt.Sprintf("%s(%d): unspent output not found", via, vout)})
	case w != nil:
		if got.Value != w.V {
			ds = append(ds, Diff{"value", w.ACls, fmt.Sprintf("%s(%d): value %d, stored %d", via, vout, got.Value, w.V)})
		}
		if !bytes.Equal(got.Pk_script, w.Scr) {
			ds = append(ds, Diff{"script", w.Cls, fmt.Sprintf("%s(%d): script %s, stored %s", via, vout, short(got.Pk_script), short(w.Scr))})
		}
		if got.BlockHeight != want.H {
			ds = append(ds, Diff{"height", "", fmt.Sprintf("%s(%d): height %d, stored %d", via, vout, got.BlockHeight, want.H)})
		}
		if got.WasCoinbase != want.CB {
			ds = append(ds, Diff{"coinbase", "", fmt.Sprintf("%s(%d): coinbase %v, stored %v", via, vout, got.WasCoinbase, want.CB)})
		}
		if got.VoutCount != uint32(want.N) {
			ds = append(ds, Diff{"count", "", fmt.Sprintf("%s(%d): VoutCount %d, stored %d", via, vout, got.VoutCount, want.N)})
		}
	}
	return
}

func guard(stage string, ds *[]Diff, f func()) {
	defer func() {
		if r := recover(); r != nil {
			*ds = append(*ds, Diff{"panic", stage, fmt.Sprintf("%s panicked: %v", stage, r)})
		}
	}()
	f()
}

// own allocator callbacks with the contract of utxo's static ones
func newCbs() *utxo.NewUtxoOutAllocCbs {
	var outs []*utxo.UtxoTxOut
	var pool []utxo.UtxoTxOut
	var idx int
	return &utxo.NewUtxoOutAllocCbs{
		OutsList: func(cnt int) []*utxo.UtxoTxOut {
			outs = make([]*utxo.UtxoTxOut, cnt)
			pool = make([]utxo.UtxoTxOut, cnt)
			idx = 0
			return outs
		},
		OneOut: func() *utxo.UtxoTxOut { idx++; return &pool[idx-1] },
	}
}

type Stats struct {
	Evals    int64 // round trips and single-output lookups compared
	Sizes    [2]int64
	SizeBad  [2]int64
	CodeObs  int64
	CodeBad  int64
	Distinct map[[8]byte]struct{}
	mu       sync.Mutex
}

func (s *Stats) add(evals int, enc []byte) {
	s.mu.Lock()
	s.Evals += int64(evals)
	if enc != nil {
		h := sha256.Sum256(enc)
		var k [8]byte
		copy(k[:], h[:])
		s.Distinct[k] = struct{}{}
	}
	s.mu.Unlock()
}

// CheckRecord runs the record through one codec.  probes: output indices for the single-output lookup.
// It returns the differences, the serialised bytes and the number of comparisons made.
func CheckRecord(want *CRec, c Codec, viaVars bool, probes []uint32) (ds []Diff, enc []byte, evals int) {
	return CheckStored(want, want, c, viaVars, probes)
}

// CheckStored: `store` is what is serialised, `want` what must come back (the same record, except in the
// binding self-test where the expectation is corrupted on purpose).
func CheckStored(store, want *CRec, c Codec, viaVars bool, probes []uint32) (ds []Diff, enc []byte, evals int) {
	if viaVars {
		varsMu.Lock()
		defer varsMu.Unlock()
		setVars(c)
		defer setVars(CodecU)
	}
	tag := c.Fmt
	if viaVars {
		tag += "/vars"
	}
	rec := store.Build()
	var buf *[]byte
	guard("Serialize", &ds, func() {
		if viaVars {
			buf = utxo.Serialize(rec, nil)
		} else {
			buf = c.Serialize(rec, nil)
		}
	})
	if len(ds) > 0 {
		return
	}
	// the record handed in must not be changed by serialising it
	if d := compareRec(store, rec, tag+" record after Serialize"); len(d) > 0 {
		for i := range d {
			d[i].Field = "input." + d[i].Field
		}
		ds = append(ds, d...)
	}
	if len(store.Outs) == 0 {
		evals++
		if buf != nil {
			ds = append(ds, Diff{"nilbuf", "", fmt.Sprintf("%s: a record with no unspent output was serialised (%d bytes)", tag, len(*buf))})
		}
		return
	}
	if buf == nil {
		ds = append(ds, Diff{"nilbuf", "", tag + ": Serialize returned nil for a record with unspent outputs"})
		return
	}
	enc = append([]byte(nil), *buf...)
	// serialising into a caller-supplied buffer gives the same bytes
	guard("Serialize(use_buf)", &ds, func() {
		tmp := make([]byte, len(enc)+64)
		var b2 *[]byte
		if viaVars {
			b2 = utxo.Serialize(store.Build(), tmp)
		} else {
			b2 = c.Serialize(store.Build(), tmp)
		}
		evals++
		if b2 == nil || !bytes.Equal(*b2, enc) {
			ds = append(ds, Diff{"bytes", "", tag + ": Serialize into use_buf differs from Serialize with allocation"})
		}
	})
	dat := append([]byte(nil), enc...)
	// full decoders
	guard("NewUtxoRec", &ds, func() {
		var got *utxo.UtxoRec
		if viaVars {
			got = utxo.NewUtxoRec(dat)
		} else {
			got = new(utxo.UtxoRec)
			c.Own(dat, got, nil)
		}
		evals++
		ds = append(ds, compareRec(want, got, tag+" NewUtxoRec")...)
	})
	guard("NewUtxoRecOwn(cbs)", &ds, func() {
		got := new(utxo.UtxoRec)
		if viaVars {
			utxo.NewUtxoRecOwn(dat, got, newCbs())
		} else {
			c.Own(dat, got, newCbs())
		}
		evals++
		ds = append(ds, compareRec(want, got, tag+" NewUtxoRecOwn(cbs)")...)
	})
	if viaVars {
		guard("FullUtxoRec", &ds, func() {
			evals++
			ds = append(ds, compareRec(want, utxo.FullUtxoRec(dat), tag+" FullUtxoRec")...)
		})
		guard("NewUtxoRecStatic", &ds, func() {
			evals++
			ds = append(ds, compareRec(want, utxo.NewUtxoRecStatic(dat), tag+" NewUtxoRecStatic")...)
		})
	}
	// single-output lookups: spent, unspent and out-of-range indices
	for _, p := range probes {
		p := p
		guard("OneUtxoRec", &ds, func() {
			var got *btc.TxOut
			if viaVars {
				got = utxo.OneUtxoRec(dat, p)
			} else {
				got = c.One(dat, p)
			}
			evals++
			ds = append(ds, compareOne(want, p, got, tag+" OneUtxoRec")...)
		})
		if len(ds) > 8 {
			break
		}
	}
	if !bytes.Equal(dat, enc) {
		ds = append(ds, Diff{"bytes", "", tag + ": decoding modified the stored bytes"})
	}
	return
}

func defaultProbes(c *CRec) []uint32 {
	set := map[uint32]bool{}
	add := func(i int64) {
		if i >= 0 && i <= 0xffffffff {
			set[uint32(i)] = true
		}
	}
	if c.N <= 8 {
		for i := 0; i <= c.N+1; i++ {
			add(int64(i))
		}
	} else {
		for _, i := range []int{0, 1, c.N - 2, c.N - 1, c.N, c.N + 1} {
			add(int64(i))
		}
		step := 1
		if len(c.Outs) > 64 {
			step = len(c.Outs) / 64
		}
		for j := 0; j < len(c.Outs); j += step {
			i := int64(c.Outs[j].I)
			add(i - 1)
			add(i)
			add(i + 1)
		}
	}
	add(0x7fffffff)
	add(0x80000000)
	add(0xffffffff)
	var ps []uint32
	for p := range set {
		ps = append(ps, p)
	}
	sort.Slice(ps, func(a, b int) bool { return ps[a] < ps[b] })
	return ps
}

func sigOf(scope, fmtName string, d Diff) string {
	s := "C10:" + scope + ":" + fmtName + ":" + d.Field
	if d.Cls != "" {
		s += ":" + d.Cls
	}
	return s
}
