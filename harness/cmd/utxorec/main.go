// utxorec: drivers binding spec/UtxoRec.tla to lib/utxo, lib/script (CompressScript / DecompressScript) and
// lib/btc (CompressAmount / DecompressAmount, CompactSize helpers)  - property C10.
//
//	utxorec replay -in <lines> -seed S -workers W -dir <scratch>
//	    every exported record case is concretised (real bytes per script class, real numbers per amount class) and
//	    taken through Serialize -> NewUtxoRec / FullUtxoRec / NewUtxoRecStatic / NewUtxoRecOwn(cbs) / OneUtxoRec in
//	    BOTH formats, directly (SerializeU/C ...) and through the package-level function variables; every exported
//	    snapshot behaviour is run on a real UnspentDB, one child process per Open (the codec is process-global).
//	utxorec random -seed S -n N [-big]       seeded random records, same oracle
//	utxorec snaprand -seed S -n N -dir D     seeded random sets through Save / reload, all create x reopen modes
//	utxorec chain -seed S -dir D             the same through chain.NewChainExt(CompressUTXO) and real blocks
//	utxorec seg / chainseg                   (internal) one process lifetime of a database / chain
package main

import (
	"bytes"
	"crypto/sha256"
	"encoding/binary"
	"encoding/json"
	"flag"
	"fmt"
	"os"
	"os/exec"
	"path/filepath"
	"runtime"
	"runtime/debug"
	"strings"
	"sync"
	"sync/atomic"
	"syscall"
	"time"

	"verifharness/vio"
)

var out *vio.Out

func quietStdout() {
	out = vio.NewOut()
	if dn, err := os.OpenFile(os.DevNull, os.O_WRONLY, 0); err == nil {
		os.Stdout = dn
	}
}

// ---------------------------------------------------------------- exported lines

type JOut struct {
	I  int             `json:"i"`
	A  int             `json:"a"`
	AK json.RawMessage `json:"ak"`
	V  []int           `json:"v"`
	S  string          `json:"s"`
	SL int             `json:"sl"`
}

type JRec struct {
	ID   int    `json:"id"`
	H    []int  `json:"h"`
	CB   bool   `json:"cb"`
	N    int    `json:"n"`
	Outs []JOut `json:"outs"`
}

type JProbe struct {
	I     int  `json:"i"`
	Alive bool `json:"alive"`
}

type JPred struct {
	SizeU  int      `json:"sizeU"`
	SizeC  int      `json:"sizeC"`
	Codes  []int    `json:"codes"`
	Probes []JProbe `json:"probes"`
}

type JCase struct {
	K string `json:"k"`
	N int    `json:"n"`
	X int    `json:"x"`
	Y int    `json:"y"`
}

type JStep struct {
	A       string `json:"a"`
	X       int    `json:"x"`
	Y       int    `json:"y"`
	Open    bool   `json:"open"`
	Bit     bool   `json:"bit"`
	Height  int    `json:"height"`
	Reload  bool   `json:"reload"`
	FExists bool   `json:"fexists"`
	FBit    bool   `json:"fbit"`
	FHeight int    `json:"fheight"`
	Set     []JRec `json:"set"`
}

type JLine struct {
	K      string  `json:"k"`
	C      JCase   `json:"c"`
	Rec    JRec    `json:"rec"`
	Expect *JRec   `json:"expect,omitempty"` // binding self-test only: a corrupted expectation
	Pred   JPred   `json:"pred"`
	Steps  []JStep `json:"steps"`
	// k = "concrete": a record given by its bytes (seeded random records), with the class labels for signatures
	Conc *SegRec  `json:"crec,omitempty"`
	Cls  []string `json:"cls,omitempty"`
	ACls []string `json:"acls,omitempty"`
}

type Fail struct {
	OK   bool            `json:"ok"`
	N    int             `json:"n"`
	Sig  string          `json:"sig"`
	What string          `json:"what"`
	Fmt  string          `json:"fmt,omitempty"`
	Enc  string          `json:"record_bytes,omitempty"`
	Line json.RawMessage `json:"line,omitempty"`
	Kind string          `json:"kind,omitempty"` // "infra": model and driver disagree (never a verdict)
}

const overflowCls = "amount-compressed-over-64-bits"

func amtLabel(ak json.RawMessage) string {
	var a struct {
		K string `json:"k"`
		X int    `json:"x"`
		Y int    `json:"y"`
	}
	json.Unmarshal(ak, &a)
	return fmt.Sprintf("%s/%d/%d", a.K, a.X, a.Y)
}

// Concretise turns an abstract record of the model into real bytes / numbers.
func Concretise(k *Keys, jr *JRec, idParts ...interface{}) (*CRec, error) {
	h := digitsToBig(jr.H)
	if !h.IsUint64() || h.Uint64() > 0xffffffff {
		return nil, fmt.Errorf("height out of range")
	}
	c := &CRec{TxID: txidOf(append([]interface{}{jr.ID}, idParts...)...), H: uint32(h.Uint64()), CB: jr.CB, N: jr.N}
	for _, o := range jr.Outs {
		v := digitsToBig(o.V)
		if !v.IsUint64() {
			return nil, fmt.Errorf("amount does not fit uint64")
		}
		scr, err := k.Script(o.S)
		if err != nil {
			return nil, err
		}
		if len(scr) != o.SL {
			return nil, fmt.Errorf("script class %s: model length %d, concretiser %d", o.S, o.SL, len(scr))
		}
		lab := amtLabel(o.AK)
		if !compressedFits(v.Uint64()) {
			lab = overflowCls
		}
		c.Outs = append(c.Outs, COut{I: o.I, V: v.Uint64(), Scr: scr, Cls: o.S, ACls: lab})
	}
	return c, nil
}

// dense records: every slot survives except the holes of pattern pat; slot content is a function of the index
var denseClasses = []string{"p2pkh", "raw5", "p2pk04e", "p2sh", "b05", "p2pk03", "raw0", "p2wpkh", "p2pk04o", "p2pk02", "p2tr", "raw33_02", "p2pk04_offcurve"}

func denseAmount(i int, salt int64) uint64 {
	switch i % 5 {
	case 0:
		return uint64(i) * 100000000
	case 1:
		return uint64(i)*7919 + 546
	case 2:
		return (uint64(i)*2654435761 + uint64(salt)) % 2100000000000000
	case 3:
		return uint64(i%9+1) * pow10u(i%16)
	}
	return uint64(i)
}

func pow10u(e int) uint64 {
	v := uint64(1)
	for ; e > 0; e-- {
		v *= 10
	}
	return v
}

func Dense(k *Keys, jr *JRec, pat int, idParts ...interface{}) (*CRec, error) {
	h := digitsToBig(jr.H)
	c := &CRec{TxID: txidOf(append([]interface{}{jr.ID, "dense", jr.N, pat}, idParts...)...), H: uint32(h.Uint64()), CB: jr.CB, N: jr.N}
	for i := 0; i < jr.N; i++ {
		hole := (pat == 1 && i == 0) || (pat == 2 && i == jr.N-1) || (pat == 3 && i%2 == 1) || (pat == 4 && i != jr.N-1)
		if hole {
			continue
		}
		cls := denseClasses[(i+int(k.salt))%len(denseClasses)]
		scr, err := k.Script(cls)
		if err != nil {
			return nil, err
		}
		v := denseAmount(i, k.salt)
		c.Outs = append(c.Outs, COut{I: i, V: v, Scr: scr, Cls: cls, ACls: fmt.Sprintf("dense/%d", i%5)})
	}
	return c, nil
}

// ---------------------------------------------------------------- replay

type recJob struct {
	n    int
	raw  []byte
	line *JLine
}

func emitDiffs(n int, scope string, c Codec, ds []Diff, enc []byte, raw []byte, nFail *int64, mu *sync.Mutex) {
	seen := map[string]bool{}
	for _, d := range ds {
		sig := sigOf(scope, c.Fmt, d)
		if seen[sig] {
			continue
		}
		seen[sig] = true
		f := Fail{OK: false, N: n, Sig: sig, What: d.What, Fmt: c.Fmt, Enc: short(enc), Line: raw}
		if len(enc) <= 4096 {
			f.Enc = fmt.Sprintf("%x", enc)
		}
		out.Put(f)
		mu.Lock()
		*nFail++
		mu.Unlock()
	}
}

func replayRec(k *Keys, st *Stats, j recJob, seed int64, nFail *int64, nInfra *int64, mu *sync.Mutex) {
	ln := j.line
	var cr *CRec
	var err error
	if ln.C.K == "dense" {
		cr, err = Dense(k, &ln.Rec, ln.C.X, seed, j.n)
	} else {
		cr, err = Concretise(k, &ln.Rec, seed, j.n)
	}
	if err != nil {
		out.Put(Fail{N: j.n, Kind: "infra", What: "concretiser: " + err.Error(), Line: j.raw})
		mu.Lock()
		*nInfra++
		mu.Unlock()
		return
	}
	// probes: the model's (with its prediction cross-checked against the concrete record) plus the driver's own
	probes := defaultProbes(cr)
	for _, p := range ln.Pred.Probes {
		if (cr.Find(p.I) != nil) != p.Alive {
			out.Put(Fail{N: j.n, Kind: "infra", What: fmt.Sprintf("probe %d: model says alive=%v", p.I, p.Alive), Line: j.raw})
			mu.Lock()
			*nInfra++
			mu.Unlock()
			return
		}
		probes = append(probes, uint32(p.I))
	}
	want := cr
	if ln.Expect != nil {
		if want, err = Concretise(k, ln.Expect, seed, j.n); err != nil {
			want = cr
		}
	}
	for ci, c := range []Codec{CodecU, CodecC} {
		for _, via := range []bool{false, true} {
			ds, enc, ev := CheckStored(cr, want, c, via, probes)
			st.add(ev, enc)
			emitDiffs(j.n, "rec", c, ds, enc, j.raw, nFail, mu)
			if !via && enc != nil && ln.C.K != "dense" {
				// grammar observation (not a verdict): the model's encoded size and special-script codes
				want := ln.Pred.SizeU
				if ci == 1 {
					want = ln.Pred.SizeC
				}
				st.mu.Lock()
				if want >= 0 {
					st.Sizes[ci]++
					if want != len(enc) {
						st.SizeBad[ci]++
						if st.SizeBad[ci] <= 3 {
							fmt.Fprintf(os.Stderr, "grammar: line %d fmt %s model size %d, code %d\n", j.n, c.Fmt, want, len(enc))
						}
					}
				}
				st.mu.Unlock()
			}
		}
	}
	if ln.C.K != "dense" {
		codeObs(st, cr, ln)
	}
}

// ---------------------------------------------------------------- replay: supervisor + worker processes
//
// The decoders run on bytes produced by the code under test; a broken codec can make them allocate without
// bound or die in a way recover() cannot catch.  So the lines are replayed in worker processes under an
// address-space limit; a worker that dies is a failure of the line it was working on, and is restarted behind it.

type chunkLine struct {
	N    int             `json:"n"`
	Line json.RawMessage `json:"line"`
}

type workStats struct {
	Rec      int64          `json:"rec_cases"`
	Snap     int64          `json:"snap_behaviours"`
	Steps    int64          `json:"snap_steps"`
	Procs    int64          `json:"processes"`
	Fail     int64          `json:"fail"`
	Infra    int64          `json:"infra"`
	Evals    int64          `json:"evaluations"`
	Distinct int64          `json:"distinct"`
	Kinds    map[string]int `json:"kinds"`
	Sizes    [2]int64       `json:"size_compared"`
	SizeBad  [2]int64       `json:"size_disagree"`
	CodeObs  int64          `json:"codes_compared"`
	CodeBad  int64          `json:"codes_disagree"`
}

func (a *workStats) add(b *workStats) {
	a.Rec += b.Rec
	a.Snap += b.Snap
	a.Steps += b.Steps
	a.Procs += b.Procs
	a.Fail += b.Fail
	a.Infra += b.Infra
	a.Evals += b.Evals
	a.Distinct += b.Distinct
	for k, v := range b.Kinds {
		a.Kinds[k] += v
	}
	for i := 0; i < 2; i++ {
		a.Sizes[i] += b.Sizes[i]
		a.SizeBad[i] += b.SizeBad[i]
	}
	a.CodeObs += b.CodeObs
	a.CodeBad += b.CodeBad
}

// cpuNow: user + system CPU time of this process in ns
func cpuNow() int64 {
	var ru syscall.Rusage
	syscall.Getrusage(syscall.RUSAGE_SELF, &ru)
	return (ru.Utime.Sec+ru.Stime.Sec)*1e9 + (ru.Utime.Usec+ru.Stime.Usec)*1e3 + 1
}

// limitCPU: the kernel kills this (child) process after so many CPU seconds
func limitCPU(sec uint64) {
	syscall.Setrlimit(syscall.RLIMIT_CPU, &syscall.Rlimit{Cur: sec, Max: sec + 5})
}

func vmSize() uint64 {
	b, err := os.ReadFile("/proc/self/statm")
	if err != nil {
		return 1 << 30
	}
	var pages uint64
	fmt.Sscan(string(b), &pages)
	return pages * uint64(os.Getpagesize())
}

func cmdReplayWork(args []string) {
	fs := flag.NewFlagSet("replaywork", flag.ExitOnError)
	in := fs.String("in", "", "")
	seed := fs.Int64("seed", 1, "")
	dir := fs.String("dir", os.TempDir(), "")
	skip := fs.Int("skip", 0, "")
	rl := fs.Int("rlimit", 3072, "address space headroom in MiB")
	cpuBudget := fs.Int("cpu", 60, "CPU seconds one case may take")
	fs.Parse(args)
	k := NewKeys(*seed)
	if err := k.SelfCheck(); err != nil {
		fmt.Fprintln(os.Stderr, "concretiser self-check:", err)
		os.Exit(2)
	}
	for _, cls := range ClassNames {
		k.Script(cls)
	}
	if *rl > 0 && !raceEnabled {
		lim := vmSize() + uint64(*rl)<<20
		syscall.Setrlimit(syscall.RLIMIT_AS, &syscall.Rlimit{Cur: lim, Max: lim})
		debug.SetMemoryLimit(int64(*rl) << 20 / 3) // the collector works harder long before the hard limit is near
	}
	st := &Stats{Distinct: map[[8]byte]struct{}{}}
	ws := workStats{Kinds: map[string]int{}}
	var mu sync.Mutex
	// watchdog on CPU time (not wall clock, so machine load does not matter): a record of a few hundred bytes that
	// keeps the decoders busy for more than cpuBudget of CPU is a decoder that does not return
	var lineCPU atomic.Int64
	go func() {
		for {
			time.Sleep(300 * time.Millisecond)
			if s0 := lineCPU.Load(); s0 != 0 && cpuNow()-s0 > int64(*cpuBudget)*1e9 {
				fmt.Fprintf(os.Stderr, "\nC10-HANG: more than %d s of CPU spent on one case\n", *cpuBudget)
				os.Exit(3)
			}
		}
	}()
	progress := func(done bool) {
		ws.Evals, ws.Distinct = st.Evals, int64(len(st.Distinct))
		ws.Sizes, ws.SizeBad, ws.CodeObs, ws.CodeBad = st.Sizes, st.SizeBad, st.CodeObs, st.CodeBad
		out.Put(map[string]interface{}{"progress": true, "done": done, "stats": &ws})
		out.Flush()
	}
	idx := 0
	err := vio.ReadLines(*in, func(_ int, raw []byte) error {
		i := idx
		idx++
		if i < *skip {
			return nil
		}
		var cl chunkLine
		if e := json.Unmarshal(raw, &cl); e != nil {
			return e
		}
		ln := new(JLine)
		if e := json.Unmarshal(cl.Line, ln); e != nil {
			return fmt.Errorf("line %d: %v", cl.N, e)
		}
		out.Put(map[string]interface{}{"begin": cl.N, "idx": i})
		out.Flush()
		j := recJob{n: cl.N, raw: cl.Line, line: ln}
		lineCPU.Store(cpuNow())
		defer lineCPU.Store(0)
		if ln.K == "rec" && (ln.C.K == "bulk" || ln.C.K == "wide") {
			ws.Snap++
			ws.Kinds[ln.C.K]++
			steps, procs := replayBulk(st, j, *seed, *dir, &ws.Fail, &ws.Infra, &mu)
			ws.Steps += int64(steps)
			ws.Procs += int64(procs)
		} else if ln.K == "rec" {
			ws.Rec++
			ws.Kinds[ln.C.K]++
			replayRec(k, st, j, *seed, &ws.Fail, &ws.Infra, &mu)
		} else if ln.K == "concrete" {
			ws.Rec++
			ws.Kinds["random"]++
			cr := concreteRec(ln)
			for _, c := range []Codec{CodecU, CodecC} {
				for _, via := range []bool{false, true} {
					ds, enc, ev := CheckRecord(cr, c, via, defaultProbes(cr))
					st.add(ev, enc)
					emitDiffs(j.n, "rec", c, ds, enc, shortLine(cl.Line), &ws.Fail, &mu)
				}
			}
		} else {
			ws.Snap++
			ws.Kinds["snap"]++
			steps, procs := replaySnap(k, st, j, *seed, *dir, &ws.Fail, &ws.Infra, &mu)
			ws.Steps += int64(steps)
			ws.Procs += int64(procs)
		}
		if idx%64 == 0 {
			progress(false)
		}
		return nil
	})
	if err != nil {
		fmt.Fprintln(os.Stderr, "read:", err)
		os.Exit(2)
	}
	progress(true)
}

func firstLines(s string, max int) string {
	if i := strings.Index(s, "C10-HANG"); i >= 0 {
		s = s[i:]
	} else if i := strings.Index(s, "fatal error:"); i >= 0 {
		s = s[i:]
	} else if i := strings.Index(s, "panic:"); i >= 0 {
		s = s[i:]
	}
	if len(s) > max {
		s = s[:max]
	}
	return s
}

func concreteRec(ln *JLine) *CRec {
	u := ln.Conc.toUtxo()
	c := &CRec{TxID: u.TxID, H: u.InBlock, CB: u.Coinbase, N: ln.Conc.N}
	k := 0
	for i, o := range u.Outs {
		if o != nil {
			co := COut{I: i, V: o.Value, Scr: o.PKScr, Cls: "?", ACls: "?"}
			if k < len(ln.Cls) {
				co.Cls = ln.Cls[k]
			}
			if k < len(ln.ACls) {
				co.ACls = ln.ACls[k]
			}
			c.Outs = append(c.Outs, co)
			k++
		}
	}
	return c
}

func concreteLine(c *CRec) []byte {
	sr := toSegRec(c)
	l := JLine{K: "concrete", Conc: &sr}
	for _, o := range c.Outs {
		l.Cls = append(l.Cls, o.Cls)
		l.ACls = append(l.ACls, o.ACls)
	}
	b, _ := json.Marshal(&l)
	return b
}

// shortLine: failures quote the line; very large concrete records are not repeated in every failure
func shortLine(raw json.RawMessage) json.RawMessage {
	if len(raw) > 30000 {
		b, _ := json.Marshal(map[string]interface{}{"k": "too-large", "bytes": len(raw)})
		return b
	}
	return raw
}

func cmdReplay(args []string) {
	fs := flag.NewFlagSet("replay", flag.ExitOnError)
	in := fs.String("in", "-", "")
	seed := fs.Int64("seed", 1, "")
	workers := fs.Int("workers", runtime.NumCPU(), "")
	dir := fs.String("dir", os.TempDir(), "")
	fs.Parse(args)
	supervise(*in, *seed, *workers, *dir, nil)
}

// supervise distributes the lines of a file over worker processes and prints the aggregated summary.
func supervise(inFile string, seedV int64, nWorkers int, dirV string, extra map[string]interface{}) {
	in, seed, workers, dir := &inFile, &seedV, &nWorkers, &dirV
	os.MkdirAll(*dir, 0777)
	// chunks: record cases round-robin; snapshot behaviours grouped by their first two processes (they share prefixes)
	chunks := make([][]chunkLine, *workers)
	total := 0
	rr := 0
	err := vio.ReadLines(*in, func(n int, raw []byte) error {
		var probe struct {
			K     string            `json:"k"`
			Steps []json.RawMessage `json:"steps"`
		}
		if e := json.Unmarshal(raw, &probe); e != nil {
			return fmt.Errorf("line %d: %v", n, e)
		}
		w := rr % *workers
		if probe.K == "snap" {
			var key []byte
			opens := 0
			for _, s := range probe.Steps {
				var st JStep
				json.Unmarshal(s, &st)
				if st.A == "Open" {
					opens++
					if opens > 2 { // the first two processes: later ones are shared inside the worker
						break
					}
				}
				key = append(key, s...)
			}
			h := sha256.Sum256(key)
			w = int(binary.LittleEndian.Uint32(h[:4])) % *workers
		} else {
			rr++
		}
		chunks[w] = append(chunks[w], chunkLine{N: n, Line: append([]byte(nil), raw...)})
		total++
		return nil
	})
	if err != nil {
		fmt.Fprintln(os.Stderr, "read:", err)
		os.Exit(2)
	}
	agg := workStats{Kinds: map[string]int{}}
	var mu sync.Mutex
	var wg sync.WaitGroup
	broken := ""
	for w := range chunks {
		if len(chunks[w]) == 0 {
			continue
		}
		wg.Add(1)
		go func(w int) {
			defer wg.Done()
			cf := filepath.Join(*dir, fmt.Sprintf("chunk%d.json", w))
			f, _ := os.Create(cf)
			enc := json.NewEncoder(f)
			for _, cl := range chunks[w] {
				enc.Encode(cl)
			}
			f.Close()
			defer os.Remove(cf)
			skip := 0
			for skip < len(chunks[w]) {
				cmd := exec.Command(selfExe, "replaywork", "-in", cf, "-seed", fmt.Sprint(*seed), "-dir", filepath.Join(*dir, fmt.Sprintf("wk%d", w)), "-skip", fmt.Sprint(skip))
				var stderr bytes.Buffer
				cmd.Stderr = &stderr
				ob, runErr := cmd.Output()
				var last *workStats
				lastIdx, lastN, done := -1, -1, false
				for _, l := range bytes.Split(ob, []byte{'\n'}) {
					if len(l) < 2 {
						continue
					}
					var m struct {
						Begin    *int       `json:"begin"`
						Idx      int        `json:"idx"`
						Progress bool       `json:"progress"`
						Done     bool       `json:"done"`
						Stats    *workStats `json:"stats"`
					}
					if json.Unmarshal(l, &m) != nil {
						continue
					}
					switch {
					case m.Begin != nil:
						lastIdx, lastN = m.Idx, *m.Begin
					case m.Progress:
						last, done = m.Stats, m.Done
					default:
						out.Put(json.RawMessage(l))
					}
				}
				mu.Lock()
				if last != nil {
					agg.add(last)
				}
				mu.Unlock()
				if done && runErr == nil {
					return
				}
				if lastIdx < skip {
					mu.Lock()
					broken = fmt.Sprintf("worker %d made no progress (%v): %s", w, runErr, firstLines(stderr.String(), 600))
					mu.Unlock()
					return
				}
				// the worker died on line lastN
				cl := chunks[w][lastIdx]
				scope := "rec"
				if bytes.Contains(cl.Line[:20], []byte("snap")) {
					scope = "snap"
				}
				kind := "fatal"
				if strings.Contains(stderr.String(), "C10-HANG") {
					kind = "hang"
				}
				out.Put(Fail{N: lastN, Sig: "C10:" + scope + ":" + kind, What: fmt.Sprintf("the process handling this case died (%v): %s", runErr, firstLines(stderr.String(), 700)), Line: cl.Line})
				mu.Lock()
				agg.Fail++
				mu.Unlock()
				skip = lastIdx + 1
			}
		}(w)
	}
	wg.Wait()
	if broken != "" {
		fmt.Fprintln(os.Stderr, broken)
		os.Exit(2)
	}
	summ := map[string]interface{}{"summary": true, "lines": agg.Rec + agg.Snap, "rec_cases": agg.Rec, "snap_behaviours": agg.Snap, "snap_steps": agg.Steps,
		"processes": agg.Procs, "fail": agg.Fail, "infra": agg.Infra, "evaluations": agg.Evals, "distinct": agg.Distinct, "kinds": agg.Kinds,
		"size_compared": agg.Sizes, "size_disagree": agg.SizeBad, "codes_compared": agg.CodeObs, "codes_disagree": agg.CodeBad, "expected_lines": total}
	for k, v := range extra {
		summ[k] = v
	}
	out.Put(summ)
	out.Flush()
}

func main() {
	if len(os.Args) < 2 {
		fmt.Fprintln(os.Stderr, "usage: utxorec replay|random|snaprand|chain ...")
		os.Exit(2)
	}
	quietStdout()
	debug.SetGCPercent(400) // records of 65537 output slots: allocation-heavy, little live data
	switch os.Args[1] {
	case "replay":
		cmdReplay(os.Args[2:])
	case "replaywork":
		cmdReplayWork(os.Args[2:])
	case "random":
		cmdRandom(os.Args[2:])
	case "snaprand":
		cmdSnapRand(os.Args[2:])
	case "chain":
		cmdChain(os.Args[2:])
	case "one":
		cmdOne(os.Args[2:])
	case "seg":
		cmdSeg(os.Args[2:])
	case "chainseg":
		cmdChainSeg(os.Args[2:])
	default:
		os.Exit(2)
	}
	out.Flush()
}
