//go:build race

package main

// raceEnabled: built with the race detector (its runtime needs an unrestricted address space)
const raceEnabled = true
