// Snapshot part: a real UnspentDB per behaviour, one child process per Open (utxo.Serialize / NewUtxoRecOwn /
// OneUtxoRec are process-global function variables that the loader switches).
package main

import (
	"bytes"
	"crypto/sha256"
	"encoding/binary"
	"encoding/hex"
	"encoding/json"
	"fmt"
	"os"
	"os/exec"
	"path/filepath"
	"reflect"
	"runtime"
	"sort"
	"strings"
	"sync"

	"github.com/piotrnar/gocoin/lib/btc"
	"github.com/piotrnar/gocoin/lib/script"
	"github.com/piotrnar/gocoin/lib/utxo"
)

type SegOut struct {
	I int    `json:"i"`
	V uint64 `json:"v"`
	S string `json:"s"`
}

type SegRec struct {
	TxID string   `json:"txid"`
	H    uint32   `json:"h"`
	CB   bool     `json:"cb"`
	N    int      `json:"n"`
	Outs []SegOut `json:"outs"`
}

type SegOp struct {
	Op string `json:"op"` // commit | gen | spend | close
	// gen: commit one block of Count generated records with Outs outputs each (genRec(seed, Block, i, Outs))
	Seed   int64    `json:"seed,omitempty"`
	Block  int      `json:"block,omitempty"`
	Count  int      `json:"count,omitempty"`
	Outs   int      `json:"outs,omitempty"`
	Height uint32   `json:"height"`
	Hash   string   `json:"hash"`
	Recs   []SegRec `json:"recs,omitempty"`
	TxID   string   `json:"txid,omitempty"`
	Mask   []bool   `json:"mask,omitempty"`
}

type SegScript struct {
	Dir  string  `json:"dir"`
	OptC bool    `json:"optc"`
	Ops  []SegOp `json:"ops"`
	Gets int     `json:"gets"` // UnspentGet probes per record: 0 none, else indices 0..min(n, Gets)
	// Sparse: read the set back only after Open and after the last operation before Close (large random sets)
	Sparse bool `json:"sparse"`
}

type SegGet struct {
	TxID string `json:"txid"`
	Vout uint32 `json:"vout"`
	Nil  bool   `json:"nil"`
	V    uint64 `json:"v"`
	S    string `json:"s"`
	H    uint32 `json:"h"`
	CB   bool   `json:"cb"`
	Cnt  uint32 `json:"cnt"`
}

type SegDump struct {
	Op     string   `json:"op"`
	Height uint32   `json:"height"`
	Hash   string   `json:"hash"`
	Flag   bool     `json:"flag"`  // db.ComprssedUTXO
	Codec  string   `json:"codec"` // which functions the variables point to
	Count  int      `json:"count"`
	Recs   []SegRec `json:"recs"`
	Bad    []string `json:"bad"`
	Gets   []SegGet `json:"gets"`
	Err    string   `json:"err,omitempty"`
}

func toSegRec(c *CRec) SegRec {
	r := SegRec{TxID: hex.EncodeToString(c.TxID[:]), H: c.H, CB: c.CB, N: c.N}
	for _, o := range c.Outs {
		r.Outs = append(r.Outs, SegOut{I: o.I, V: o.V, S: hex.EncodeToString(o.Scr)})
	}
	return r
}

func (s *SegRec) toUtxo() *utxo.UtxoRec {
	r := &utxo.UtxoRec{InBlock: s.H, Coinbase: s.CB, Outs: make([]*utxo.UtxoTxOut, s.N)}
	b, _ := hex.DecodeString(s.TxID)
	copy(r.TxID[:], b)
	for _, o := range s.Outs {
		scr, _ := hex.DecodeString(o.S)
		if o.I < s.N {
			r.Outs[o.I] = &utxo.UtxoTxOut{Value: o.V, PKScr: scr}
		}
	}
	return r
}

func fromUtxo(r *utxo.UtxoRec) SegRec {
	s := SegRec{TxID: hex.EncodeToString(r.TxID[:]), H: r.InBlock, CB: r.Coinbase, N: len(r.Outs)}
	for i, o := range r.Outs {
		if o != nil {
			s.Outs = append(s.Outs, SegOut{I: i, V: o.Value, S: hex.EncodeToString(o.PKScr)})
		}
	}
	return s
}

func codecName() string {
	p := reflect.ValueOf(utxo.Serialize).Pointer()
	switch p {
	case reflect.ValueOf(utxo.SerializeU).Pointer():
		return "U"
	case reflect.ValueOf(utxo.SerializeC).Pointer():
		return "C"
	}
	return "?"
}

func dumpDb(db *utxo.UnspentDB, op string, gets int) (d SegDump) {
	d.Op = op
	d.Height = db.LastBlockHeight
	d.Hash = hex.EncodeToString(db.LastBlockHash)
	d.Flag = db.ComprssedUTXO
	d.Codec = codecName()
	for i := range db.HashMap {
		db.MapMutex[i].RLock()
		for k, v := range db.HashMap[i] {
			d.Count++
			func() {
				defer func() {
					if r := recover(); r != nil {
						d.Bad = append(d.Bad, fmt.Sprintf("record %x: decoding panicked: %v", k[:], r))
					}
				}()
				rec := utxo.NewUtxoRec(*v)
				d.Recs = append(d.Recs, fromUtxo(rec))
				if gets > 0 {
					top := len(rec.Outs)
					if top > gets {
						top = gets
					}
					for vo := 0; vo <= top; vo++ {
						g := SegGet{TxID: hex.EncodeToString(rec.TxID[:]), Vout: uint32(vo)}
						o := db.UnspentGet(&btc.TxPrevOut{Hash: rec.TxID, Vout: uint32(vo)})
						if o == nil {
							g.Nil = true
						} else {
							g.V, g.S, g.H, g.CB, g.Cnt = o.Value, hex.EncodeToString(o.Pk_script), o.BlockHeight, o.WasCoinbase, o.VoutCount
						}
						d.Gets = append(d.Gets, g)
					}
				}
			}()
		}
		db.MapMutex[i].RUnlock()
	}
	sort.Slice(d.Recs, func(a, b int) bool { return d.Recs[a].TxID < d.Recs[b].TxID })
	return
}

// cmdSeg: one process lifetime of an UnspentDB. Reads the script, writes one dump after Open and after every op.
func cmdSeg(args []string) {
	fs := flag_("seg")
	scriptF := fs.String("script", "", "")
	outF := fs.String("out", "", "")
	fs.Parse(args)
	var sc SegScript
	b, err := os.ReadFile(*scriptF)
	if err == nil {
		err = json.Unmarshal(b, &sc)
	}
	if err != nil {
		fmt.Fprintln(os.Stderr, "seg:", err)
		os.Exit(2)
	}
	utxo.UTXO_WRITING_TIME_TARGET = 0
	limitCPU(300)
	if runtime.GOMAXPROCS(0) < 4 {
		runtime.GOMAXPROCS(4) // UnspentDB.commit and the snapshot loader are concurrent: let them be
	}
	var dumps []SegDump
	flush := func() {
		jb, _ := json.Marshal(dumps)
		os.WriteFile(*outF, jb, 0666)
	}
	db := utxo.NewUnspentDb(&utxo.NewUnspentOpts{Dir: sc.Dir + string(os.PathSeparator), CompressRecords: sc.OptC})
	dumps = append(dumps, dumpDb(db, "open", sc.Gets))
	flush()
	lastOp := -1
	for i, op := range sc.Ops {
		if op.Op != "close" {
			lastOp = i
		}
	}
	for oi, op := range sc.Ops {
		hash, _ := hex.DecodeString(op.Hash)
		var d SegDump
		func() {
			defer func() {
				if r := recover(); r != nil {
					d = SegDump{Op: op.Op, Err: fmt.Sprintf("%s panicked: %v", op.Op, r)}
				}
			}()
			switch op.Op {
			case "commit":
				ch := &utxo.BlockChanges{Height: op.Height}
				for i := range op.Recs {
					ch.AddList = append(ch.AddList, op.Recs[i].toUtxo())
				}
				db.CommitBlockTxs(ch, hash)
			case "gen":
				ch := &utxo.BlockChanges{Height: op.Height}
				for i := 0; i < op.Count; i++ {
					ch.AddList = append(ch.AddList, genRec(op.Seed, op.Block, i, op.Outs).Build())
				}
				db.CommitBlockTxs(ch, hash)
			case "spend":
				var id [32]byte
				tb, _ := hex.DecodeString(op.TxID)
				copy(id[:], tb)
				db.CommitBlockTxs(&utxo.BlockChanges{Height: op.Height, DeledTxs: map[[32]byte][]bool{id: op.Mask}}, hash)
			case "close":
				db.Close()
				d = SegDump{Op: "close"}
				return
			}
			if sc.Sparse && oi != lastOp {
				d = SegDump{Op: "skipped"}
				return
			}
			d = dumpDb(db, op.Op, sc.Gets)
		}()
		dumps = append(dumps, d)
		flush() // a panic in one of the library's goroutines cannot be recovered: keep what was observed so far
		if d.Err != "" {
			break
		}
	}
	flush()
}

// raceReport returns the first report of the Go race detector in a child's stderr ("" when there is none).
func raceReport(stderr string) string {
	i := strings.Index(stderr, "WARNING: DATA RACE")
	if i < 0 {
		return ""
	}
	rep := stderr[i:]
	if j := strings.Index(rep[18:], "=================="); j >= 0 {
		rep = rep[:18+j]
	}
	if len(rep) > 3000 {
		rep = rep[:3000]
	}
	return rep
}

// raceFails turns race reports into failures: a race inside gocoin's library code while records are stored is a
// record about to be stored changed; a race anywhere else is the harness' own problem.
func raceFails(dumps []SegDump, scope string) (fails []Fail, infra string) {
	for _, d := range dumps {
		if d.Op != "race" {
			continue
		}
		switch {
		case strings.Contains(d.Err, "gocoin/lib/utxo"):
			fails = append(fails, Fail{Sig: "C10:" + scope + ":race:lib/utxo", What: "the race detector reports unsynchronised access inside lib/utxo while records are stored / read back: " + d.Err})
		case strings.Contains(d.Err, "gocoin/lib/"):
			fails = append(fails, Fail{Sig: "C10:" + scope + ":race:lib", What: "the race detector reports unsynchronised access inside gocoin's library code while records are stored / read back: " + d.Err})
		default:
			infra = "race report outside gocoin: " + d.Err
		}
	}
	return
}

// genRec: record number i of generated block `block`.  outs = 1: a minimal record (one tiny output).  outs > 1: equal-size
// outputs (every transaction has the same layout, so a mixed-up scratch entry changes content, not lengths), all
// amounts and scripts distinct.
func genRec(seed int64, block, i, outs int) *CRec {
	c := &CRec{TxID: txidOf("gen", seed, block, i), H: uint32(block), CB: i%2 == 0, N: outs}
	if outs == 1 {
		c.Outs = []COut{{I: 0, V: uint64(1 + i%200), Scr: []byte{0x51}, Cls: "gen", ACls: "gen"}}
		return c
	}
	hs := hashN(20*outs, "genh", seed, block, i)
	for o := 0; o < outs; o++ {
		h := hs[20*o : 20*o+20]
		scr := p2pkh(h)
		if o%4 == 3 {
			scr[24] = 0xad // not the template: stored with the len+6 escape
		}
		v := 3000000001 + uint64(i*64+o)*10 + uint64(o%9)
		c.Outs = append(c.Outs, COut{I: o, V: v, Scr: scr, Cls: "gen", ACls: "gen"})
	}
	return c
}

// replayBulk: a generated set (sizes around the loader's pack size, or wide blocks that make UnspentDB.commit serialise
// from many goroutines) is committed, read back in the same process, saved, and read back in a new process.
func replayBulk(st *Stats, j recJob, seed int64, work string, nFail, nInfra *int64, mu *sync.Mutex) (steps, procs int) {
	ln := j.line
	dir := filepath.Join(work, "db")
	os.RemoveAll(work)
	os.MkdirAll(dir, 0777)
	defer os.RemoveAll(work)
	count, outs, optC := ln.C.N, ln.C.X, ln.C.Y == 1
	blocks := 1
	if ln.C.K == "wide" {
		blocks = 2
	}
	put := func(fails []Fail, infra string) bool {
		if infra != "" {
			out.Put(Fail{N: j.n, Kind: "infra", What: infra, Line: j.raw})
			mu.Lock()
			*nInfra++
			mu.Unlock()
			return true
		}
		seen := map[string]bool{}
		for _, f := range fails {
			if !seen[f.Sig] {
				seen[f.Sig] = true
				f.N, f.Line = j.n, j.raw
				out.Put(f)
				mu.Lock()
				*nFail++
				mu.Unlock()
			}
		}
		return len(fails) > 0
	}
	want := map[[32]byte]*CRec{}
	sc := &SegScript{Dir: dir, OptC: optC, Sparse: true}
	if outs > 1 {
		sc.Gets = 2
	}
	for b := 1; b <= blocks; b++ {
		sc.Ops = append(sc.Ops, SegOp{Op: "gen", Height: uint32(b), Hash: blockHash(seed, 0, b), Seed: seed, Block: b, Count: count, Outs: outs})
		for i := 0; i < count; i++ {
			c := genRec(seed, b, i, outs)
			want[c.TxID] = c
		}
	}
	sc.Ops = append(sc.Ops, SegOp{Op: "close"})
	judge := func(dumps []SegDump, scope, where string, file []byte) bool {
		fails, infra := raceFails(dumps, scope)
		for i := range dumps {
			d := &dumps[i]
			if d.Op == "race" || d.Op == "skipped" || (d.Op == "close" && d.Err == "") || (d.Op == "open" && file == nil) {
				continue
			}
			steps++
			st.add(1+len(d.Recs)+len(d.Gets), nil)
			fl := compareSet(want, d, fmtOf(optC), scope)
			if d.Err == "" && d.Count != len(want) {
				fl = append(fl, Fail{Sig: sigOf(scope, fmtOf(optC), Diff{"set", "", ""}), What: fmt.Sprintf("%d records in the set, %d were stored", d.Count, len(want))})
			}
			if file != nil {
				fl = relabel(fl, file, want)
			}
			for k := range fl {
				fl[k].What = where + ": " + fl[k].What
			}
			fails = append(fails, fl...)
			if len(fl) > 0 {
				break
			}
		}
		return put(fails, infra)
	}
	dumps, err := runSeg(sc, work)
	procs++
	if err != nil {
		put(nil, "child: "+err.Error())
		return
	}
	scope := "snap:create=" + fmtOf(optC)
	if judge(dumps, scope+":live", fmt.Sprintf("%d blocks of %d records with %d outputs, read back in the process that committed them", blocks, count, outs), nil) {
		return
	}
	file, _ := os.ReadFile(filepath.Join(dir, "UTXO.db"))
	if file == nil {
		file = []byte{}
	}
	dumps, err = runSeg(&SegScript{Dir: dir, OptC: optC, Gets: sc.Gets, Ops: []SegOp{{Op: "close"}}}, work)
	procs++
	if err != nil {
		put(nil, "child: "+err.Error())
		return
	}
	judge(dumps, scope+":reloaded", fmt.Sprintf("%d blocks of %d records with %d outputs, saved and reloaded in a new process", blocks, count, outs), file)
	return
}

var selfExe = func() string { e, _ := os.Executable(); return e }()

func runSeg(sc *SegScript, work string) ([]SegDump, error) {
	os.MkdirAll(work, 0777)
	sf := filepath.Join(work, "seg.json")
	of := filepath.Join(work, "seg.out")
	os.Remove(of)
	b, _ := json.Marshal(sc)
	if err := os.WriteFile(sf, b, 0666); err != nil {
		return nil, err
	}
	cmd := exec.Command(selfExe, "seg", "-script", sf, "-out", of)
	var stderr bytes.Buffer
	cmd.Stderr = &stderr
	runErr := cmd.Run()
	var dumps []SegDump
	if ob, err := os.ReadFile(of); err == nil {
		if err := json.Unmarshal(ob, &dumps); err != nil {
			return nil, err
		}
	}
	if rep := raceReport(stderr.String()); rep != "" {
		dumps = append(dumps, SegDump{Op: "race", Err: rep})
	} else if runErr != nil {
		tail := stderr.String()
		if i := strings.Index(tail, "panic:"); i >= 0 {
			tail = tail[i:]
		}
		if len(tail) > 900 {
			tail = tail[:900]
		}
		dumps = append(dumps, SegDump{Op: "process", Err: fmt.Sprintf("the process died (%v): %s", runErr, tail)})
	}
	return dumps, nil
}

// compareSet compares what a process read with the expected set; fileFmt is the codec the model says the
// records are in. Differences that the record-level round trip of that record in that codec reproduces are
// attributed to the record-level signature (same root cause), all others carry the snapshot scope.
func compareSet(want map[[32]byte]*CRec, d *SegDump, fileFmt string, scope string) (fails []Fail) {
	seenSig := map[string]bool{}
	add := func(sc, fm string, df Diff) { // one failure per signature: many repeats of one cause must not hide another
		if sig := sigOf(sc, fm, df); !seenSig[sig] {
			seenSig[sig] = true
			fails = append(fails, Fail{Sig: sig, What: df.What, Fmt: fm})
		}
	}
	if d.Err != "" {
		add(scope, fileFmt, Diff{"panic", "", d.Err})
		return
	}
	for _, b := range d.Bad {
		add(scope, fileFmt, Diff{"decode", "", b})
	}
	codec := CodecU
	if fileFmt == "C" {
		codec = CodecC
	}
	attrib := func(cr *CRec, ds []Diff) {
		if len(ds) == 0 {
			return
		}
		direct, _, _ := CheckRecord(cr, codec, false, nil)
		for _, df := range ds {
			hit := false
			for _, x := range direct {
				if x.Field == df.Field && x.Cls == df.Cls {
					hit = true
				}
			}
			if hit {
				add("rec", fileFmt, df)
			} else {
				add(scope, fileFmt, Diff{"decode", "", df.What})
			}
		}
	}
	seen := map[[32]byte]bool{}
	for i := range d.Recs {
		got := d.Recs[i].toUtxo()
		cr := want[got.TxID]
		if cr == nil {
			add(scope, fileFmt, Diff{"set", "", fmt.Sprintf("a record that was never stored (or is fully spent) is in the set: %x", got.TxID)})
			continue
		}
		seen[got.TxID] = true
		attrib(cr, compareRec(cr, got, "set walk"))
	}
	for id, cr := range want {
		if !seen[id] && len(d.Bad) == 0 {
			add(scope, fileFmt, Diff{"set", "", fmt.Sprintf("stored record %x (%d unspent outputs) is missing", id, len(cr.Outs))})
		}
	}
	for _, g := range d.Gets {
		var id [32]byte
		b, _ := hex.DecodeString(g.TxID)
		copy(id[:], b)
		cr := want[id]
		if cr == nil {
			continue
		}
		var o *btc.TxOut
		if !g.Nil {
			s, _ := hex.DecodeString(g.S)
			o = &btc.TxOut{Value: g.V, Pk_script: s, BlockHeight: g.H, WasCoinbase: g.CB, VoutCount: g.Cnt}
		}
		attrib(cr, compareOne(cr, g.Vout, o, "UnspentGet"))
	}
	return
}

func blockHash(seed int64, n int, h int) string {
	return hex.EncodeToString(hashN(32, "blk", seed, n, h))
}

func fmtOf(bit bool) string {
	if bit {
		return "C"
	}
	return "U"
}

// bitMismatch diagnoses one specific root cause of an unreadable snapshot: the header's compressed bit does not
// name the codec the records were written with (every record decodes to what was stored with the OTHER codec).
func bitMismatch(b []byte, want map[[32]byte]*CRec) (yes bool) {
	if len(b) < 48 || len(want) == 0 {
		return false
	}
	defer func() {
		if recover() != nil {
			yes = false
		}
	}()
	other := CodecC
	if binary.LittleEndian.Uint64(b[0:8])>>63 != 0 {
		other = CodecU
	}
	off, n := 48, 0
	for off < len(b) {
		le, k := btc.VLen(b[off:])
		if k == 0 || off+k+le > len(b) {
			return false
		}
		rec := new(utxo.UtxoRec)
		other.Own(b[off+k:off+k+le], rec, nil)
		w := want[rec.TxID]
		if w == nil || len(compareRec(w, rec, "")) > 0 {
			return false
		}
		off += k + le
		n++
	}
	return n == len(want)
}

const bitSig = "header-bit-vs-record-codec"

// relabel: failures of a reloaded set that are explained by bitMismatch carry that root cause in the signature
// (file: the bytes of UTXO.db as the process found them)
func relabel(fails []Fail, file []byte, want map[[32]byte]*CRec) []Fail {
	if len(fails) == 0 || !bitMismatch(file, want) {
		return fails
	}
	var res []Fail
	for _, f := range fails {
		if strings.HasSuffix(f.Sig, ":decode") || strings.HasSuffix(f.Sig, ":panic") {
			f.Sig = f.Sig[:strings.LastIndex(f.Sig, ":")+1] + bitSig
			f.What += " | the file header has the compressed bit set to the opposite of the codec its records are written in (they decode to exactly the stored records with the other codec)"
		}
		res = append(res, f)
	}
	return res
}

// parse the header of UTXO.db ourselves (observation)
func readHeader(dir string) (height uint64, bit bool, hash []byte, count uint64, nrec int, ok bool) {
	b, err := os.ReadFile(filepath.Join(dir, "UTXO.db"))
	if err != nil || len(b) < 48 {
		return
	}
	u := binary.LittleEndian.Uint64(b[0:8])
	height, bit = u&0x7fffffffffffffff, u>>63 != 0
	hash = b[8:40]
	count = binary.LittleEndian.Uint64(b[40:48])
	off := 48
	for off < len(b) {
		le, n := btc.VLen(b[off:])
		if n == 0 {
			return
		}
		off += n + le
		nrec++
	}
	ok = off == len(b)
	return
}

// segEntry: the outcome of one process of a behaviour, cached by the behaviour prefix that leads to it, so
// that behaviours sharing a prefix (TLC exports one per transition) run every process once.  A single line
// replayed alone computes everything itself.
type segEntry struct {
	once     sync.Once
	files    map[string][]byte // the data directory after the process
	fails    []Fail
	diverged bool // a failure that is not explained at the record level: the later steps are not judged
	infra    string
	steps    int
	obs      [2]int64
}

var (
	segCache   = map[[32]byte]*segEntry{}
	segCacheMu sync.Mutex
)

func readDirFiles(dir string) map[string][]byte {
	m := map[string][]byte{}
	es, _ := os.ReadDir(dir)
	for _, e := range es {
		if !e.IsDir() {
			if b, err := os.ReadFile(filepath.Join(dir, e.Name())); err == nil {
				m[e.Name()] = b
			}
		}
	}
	return m
}

// replaySnap runs one exported behaviour of the snapshot machine.
func replaySnap(k *Keys, st *Stats, j recJob, seed int64, work string, nFail, nInfra *int64, mu *sync.Mutex) (steps, procs int) {
	ln := j.line
	dir := filepath.Join(work, "db")
	defer os.RemoveAll(work)
	conc := func(jr *JRec) (*CRec, error) { return Concretise(k, jr, seed, "snap") }
	var prev map[string][]byte
	i := 0
	for i < len(ln.Steps) {
		first := i
		i++
		for i < len(ln.Steps) && ln.Steps[i].A != "Open" {
			i++
		}
		end := i
		pj, _ := json.Marshal(ln.Steps[:end])
		key := sha256.Sum256(append([]byte(fmt.Sprint(seed, "|")), pj...))
		segCacheMu.Lock()
		ent := segCache[key]
		if ent == nil {
			ent = &segEntry{}
			segCache[key] = ent
		}
		segCacheMu.Unlock()
		computed := false
		ent.once.Do(func() {
			computed = true
			os.RemoveAll(work)
			os.MkdirAll(dir, 0777)
			for name, b := range prev {
				os.WriteFile(filepath.Join(dir, name), b, 0666)
			}
			runSegment(ent, ln, first, end, dir, work, seed, conc)
			ent.files = readDirFiles(dir)
		})
		if computed {
			procs++
			steps += ent.steps
			st.mu.Lock()
			st.CodeObs += ent.obs[0]
			st.CodeBad += ent.obs[1]
			st.mu.Unlock()
			st.add(ent.steps, nil)
		}
		if ent.infra != "" {
			out.Put(Fail{N: j.n, Kind: "infra", What: ent.infra, Line: j.raw})
			mu.Lock()
			*nInfra++
			mu.Unlock()
			return
		}
		for _, f := range ent.fails {
			f.N, f.Line = j.n, j.raw
			out.Put(f)
			mu.Lock()
			*nFail++
			mu.Unlock()
		}
		if ent.diverged {
			return // the states have diverged
		}
		prev = ent.files
	}
	return
}

// runSegment executes steps [first, end) (one process: Open ... [Close]) on dir and judges every dump.
func runSegment(ent *segEntry, ln *JLine, first, end int, dir, work string, seed int64, conc func(*JRec) (*CRec, error)) {
	before, _ := os.ReadFile(filepath.Join(dir, "UTXO.db"))
	if ln.Steps[first].A != "Open" {
		ent.infra = "behaviour does not start a process with Open"
		return
	}
	open := &ln.Steps[first]
	sc := &SegScript{Dir: dir, OptC: open.X == 1, Gets: 4}
	find := func(set []JRec, id int) *JRec {
		for r := range set {
			if set[r].ID == id {
				return &set[r]
			}
		}
		return nil
	}
	for i := first + 1; i < end; i++ {
		s := ln.Steps[i]
		op := SegOp{Height: uint32(s.Height), Hash: blockHash(seed, 0, s.Height)}
		switch s.A {
		case "Commit":
			op.Op = "commit"
			jr := find(s.Set, 10+s.X)
			if jr == nil {
				ent.infra = "committed record not in the predicted set"
				return
			}
			c, err := conc(jr)
			if err != nil {
				ent.infra = "concretiser: " + err.Error()
				return
			}
			op.Recs = []SegRec{toSegRec(c)}
		case "Spend":
			op.Op = "spend"
			jr := find(ln.Steps[i-1].Set, 10+s.X)
			if jr == nil {
				ent.infra = "spent record not in the previous set"
				return
			}
			c, err := conc(jr)
			if err != nil {
				ent.infra = "concretiser: " + err.Error()
				return
			}
			op.TxID = hex.EncodeToString(c.TxID[:])
			op.Mask = make([]bool, c.N)
			op.Mask[s.Y] = true
		case "Close":
			op.Op = "close"
		default:
			ent.infra = "unknown step " + s.A
			return
		}
		sc.Ops = append(sc.Ops, op)
	}
	if sc.Ops == nil || sc.Ops[len(sc.Ops)-1].Op != "close" {
		sc.Ops = append(sc.Ops, SegOp{Op: "close"})
	}
	dumps, err := runSeg(sc, work)
	if err != nil {
		ent.infra = "child: " + err.Error()
		return
	}
	// the codec the model expects this database to use, and whether this process loaded a file
	scope := "snap:create=" + fmtOf(open.Bit)
	if open.Reload {
		scope += ":reloaded"
	} else {
		scope += ":live"
	}
	for di := range dumps {
		si := first + di
		if si >= end {
			break
		}
		s := &ln.Steps[si]
		d := &dumps[di]
		ent.steps++
		if d.Op == "close" && d.Err == "" {
			if s.FExists { // observation: the file as the model describes it
				h, bit, _, cnt, nrec, ok := readHeader(dir)
				ent.obs[0]++
				nw := 0
				for r := range s.Set {
					if s.Set[r].ID != 0 {
						nw++
					}
				}
				if !ok || int(h) != s.FHeight || bit != s.FBit || int(cnt) != nrec || nrec != nw {
					ent.obs[1]++
				}
			}
			continue
		}
		want := map[[32]byte]*CRec{}
		for r := range s.Set {
			if s.Set[r].ID != 0 {
				c, err := conc(&s.Set[r])
				if err != nil {
					ent.infra = "concretiser: " + err.Error()
					return
				}
				want[c.TxID] = c
			}
		}
		fails := compareSet(want, d, fmtOf(s.Bit), scope)
		if s.Reload {
			fails = relabel(fails, before, want)
		}
		if d.Err == "" && s.Reload {
			if int(d.Height) != s.Height {
				fails = append(fails, Fail{Sig: "C10:" + scope + ":header:height", What: fmt.Sprintf("reloaded snapshot says block height %d, saved at %d", d.Height, s.Height)})
			}
			if s.Height > 0 && d.Hash != blockHash(seed, 0, s.Height) {
				fails = append(fails, Fail{Sig: "C10:" + scope + ":header:hash", What: fmt.Sprintf("reloaded snapshot says block hash %s, saved with %s", d.Hash, blockHash(seed, 0, s.Height))})
			}
		}
		ent.steps += len(d.Gets)
		if len(fails) > 0 {
			seen := map[string]bool{}
			for _, f := range ent.fails {
				seen[f.Sig] = true
			}
			for _, f := range fails {
				if !strings.HasPrefix(f.Sig, "C10:rec:") {
					ent.diverged = true
				}
				if !seen[f.Sig] {
					seen[f.Sig] = true
					f.What = fmt.Sprintf("step %d (%s): %s", si+1, s.A, f.What)
					ent.fails = append(ent.fails, f)
				}
			}
			// a difference that the record codec alone reproduces leaves the set as the model has it: go on
			if ent.diverged {
				return
			}
		}
	}
}

// codeObs: grammar observation (not a verdict): the special-script code the model predicts vs CompressScript
func codeObs(st *Stats, cr *CRec, ln *JLine) {
	for i, o := range cr.Outs {
		if i >= len(ln.Pred.Codes) {
			break
		}
		got := -1
		func() {
			defer func() { recover() }()
			if c := script.CompressScript(o.Scr); c != nil {
				got = int(c[0])
			}
		}()
		st.mu.Lock()
		st.CodeObs++
		if got != ln.Pred.Codes[i] {
			st.CodeBad++
		}
		st.mu.Unlock()
	}
}
