// alloc: conformance driver binding spec/Alloc.tla to lib/others/memory (property C20).
//
//	alloc info
//	    class table of the allocator as JSON (slot sizes, capacities, defrag thresholds).
//	alloc record -out <ndjson> -seed S -runs K -g G -ops N -rounds R [-smallcap] [-defrag]
//	    K seeded runs, each with G goroutines doing Malloc/Free mixes (sizes 0..200 KiB concentrated on the
//	    class boundaries, the large classes and the private-mapping path), every slice filled with a
//	    pattern derived from its allocation id and verified (with len/cap) before Free, at every quiescent
//	    point and inside the relocate callback; address ranges of live slices are checked for overlap.
//	    The hook events (normalised to class, page id by first appearance, slot index) are written as
//	    ndjson for TraceAlloc; Go-level failures are printed as JSON lines on stdout.
//	alloc replay -in <lines> -workers N
//	    TLC-exported sequential behaviours of the small model ({"path":[..],"last":{..}} or
//	    {"steps":[..]}) are replayed on the real allocator (two large classes shrunk to the model's
//	    capacities); returned (page, slot), the complete class bookkeeping and the counters are compared
//	    with the model's prediction.
package main

import (
	"encoding/binary"
	"encoding/json"
	"flag"
	"fmt"
	"math/rand"
	"os"
	"reflect"
	"runtime"
	"runtime/debug"
	"sort"
	"strings"
	"sync"
	"sync/atomic"
	"unsafe"

	"github.com/piotrnar/gocoin/lib/others/memory"
	"github.com/piotrnar/gocoin/lib/others/verif"

	"verifharness/vio"
)

const hdrLen = memory.VerifSliceHdr

// ---------------------------------------------------------------- class table

type table struct {
	N        int   `json:"classes"`
	Slot     []int `json:"slot"`    // slot size, slice header included
	Data     []int `json:"dataseq"` // usable bytes per slot
	Cap      []int `json:"capseq"`  // slots per page
	PageSize int   `json:"pagesize"`
	Header   int   `json:"header"`
	From     int   `json:"defrag_from"`
	To       int   `json:"defrag_to"`
}

func classTable(a *memory.Allocator) table {
	t := table{N: memory.VerifClasses(), PageSize: memory.VerifPageSize, Header: memory.VerifHeaderSize,
		From: memory.VerifDefragFrom, To: memory.VerifDefragTo}
	for c := 0; c < t.N; c++ {
		t.Slot = append(t.Slot, memory.VerifSlotSize(c))
		t.Data = append(t.Data, memory.VerifSlotSize(c)-hdrLen)
		t.Cap = append(t.Cap, a.VerifCap(c))
	}
	return t
}

// ---------------------------------------------------------------- event capture

type rawEv struct {
	name string
	kv   []interface{}
}

type capture struct {
	evs []rawEv
}

func (c *capture) install() {
	verif.Sink = func(seq uint64, name string, kv []interface{}) {
		c.evs = append(c.evs, rawEv{name, kv})
	}
}

func (c *capture) take() []rawEv {
	// only called while no goroutine is inside the allocator
	e := c.evs
	c.evs = nil
	return e
}

func kvGet(kv []interface{}, key string) interface{} {
	for i := 0; i+1 < len(kv); i += 2 {
		if k, ok := kv[i].(string); ok && k == key {
			return kv[i+1]
		}
	}
	return nil
}

func kvPtr(kv []interface{}, key string) uintptr {
	switch v := kvGet(kv, key).(type) {
	case uintptr:
		return v
	case int:
		return uintptr(v)
	}
	return 0
}

func kvInt(kv []interface{}, key string) int {
	switch v := kvGet(kv, key).(type) {
	case int:
		return v
	case uintptr:
		return int(v)
	}
	return 0
}

// ---------------------------------------------------------------- normalisation of addresses

type pgRef struct{ class, id int }

type norm struct {
	t       table
	pg      map[uintptr]pgRef
	nextPg  []int
	priv    map[uintptr]int
	nextID  int
	touched map[int]bool // classes with events since the last state dump
}

func newNorm(t table) *norm {
	return &norm{t: t, pg: map[uintptr]pgRef{}, nextPg: make([]int, t.N), priv: map[uintptr]int{}, touched: map[int]bool{}}
}

// slot address -> (page id or 0, slot index, aligned)
func (n *norm) slotOf(class int, ptr uintptr) (p, s int, aligned bool) {
	page := ptr &^ uintptr(n.t.PageSize-1)
	off := int(ptr-page) - n.t.Header
	if class < 0 || class >= n.t.N {
		return 0, 0, false
	}
	aligned = off >= 0 && off%n.t.Slot[class] == 0
	if off >= 0 {
		s = off / n.t.Slot[class]
	}
	if r, ok := n.pg[page]; ok && r.class == class {
		p = r.id
	}
	return
}

type M = map[string]interface{}

// one raw hook event -> trace record (nil: not part of the trace)
func (n *norm) conv(e rawEv) M {
	kv := e.kv
	class := kvInt(kv, "class")
	c := class + 1
	switch e.name {
	case "mem_link":
		n.touched[class] = true
		n.nextPg[class]++
		n.pg[kvPtr(kv, "page")] = pgRef{class, n.nextPg[class]}
		return M{"ev": "link", "c": c, "p": n.nextPg[class]}
	case "mem_malloc":
		n.touched[class] = true
		p, s, al := n.slotOf(class, kvPtr(kv, "ptr"))
		if s != kvInt(kv, "slot") {
			al = false
		}
		n.nextID++
		return M{"ev": "malloc", "c": c, "p": p, "s": s, "id": n.nextID, "len": kvInt(kv, "size"), "aligned": al}
	case "mem_free":
		n.touched[class] = true
		p, s, _ := n.slotOf(class, kvPtr(kv, "ptr"))
		rel := 0
		if kvPtr(kv, "released") != 0 {
			rel = 1
			delete(n.pg, kvPtr(kv, "released"))
		}
		return M{"ev": "free", "c": c, "p": p, "s": s, "released": rel}
	case "mem_pmalloc":
		n.nextID++
		n.priv[kvPtr(kv, "ptr")] = n.nextID
		return M{"ev": "pmalloc", "id": n.nextID, "len": kvInt(kv, "size") - hdrLen}
	case "mem_pfree":
		id := n.priv[kvPtr(kv, "ptr")]
		delete(n.priv, kvPtr(kv, "ptr"))
		return M{"ev": "pfree", "id": id}
	case "mem_defrag_sel":
		n.touched[class] = true
		pages := []int{}
		if l, ok := kvGet(kv, "pages").([]uintptr); ok {
			for _, a := range l {
				id := 0
				if r, ok := n.pg[a]; ok && r.class == class {
					id = r.id
				}
				pages = append(pages, id)
			}
		}
		return M{"ev": "dsel", "c": c, "pages": pages}
	case "mem_relocate":
		p, s, _ := n.slotOf(class, kvPtr(kv, "old"))
		np, ns, _ := n.slotOf(class, kvPtr(kv, "new"))
		return M{"ev": "reloc", "c": c, "p": p, "s": s, "np": np, "ns": ns}
	case "mem_unlink":
		id := 0
		if r, ok := n.pg[kvPtr(kv, "page")]; ok && r.class == class {
			id = r.id
		}
		delete(n.pg, kvPtr(kv, "page"))
		return M{"ev": "dunl", "c": c, "p": id}
	case "mem_defrag_end":
		return M{"ev": "dend", "c": c, "cnt": kvInt(kv, "cnt")}
	case "mem_defrag_all":
		return M{"ev": "dall", "c": c}
	case "mem_defrag_begin":
		return M{"ev": "dbegin", "c": c}
	case "mem_defrag_all_end":
		return M{"ev": "dallend"}
	case "h_cb":
		old, nw := kvPtr(kv, "old"), kvPtr(kv, "new")
		r, ok := n.pg[old&^uintptr(n.t.PageSize-1)]
		if !ok {
			return M{"ev": "cb", "c": 1, "p": 0, "s": 0, "np": 0, "ns": 0, "ok": false}
		}
		p, s, _ := n.slotOf(r.class, old-uintptr(0))
		np, ns, _ := n.slotOf(r.class, nw)
		okv, _ := kvGet(kv, "ok").(bool)
		return M{"ev": "cb", "c": r.class + 1, "p": p, "s": s, "np": np, "ns": ns, "ok": okv}
	case "h_quiesce":
		return M{"ev": "quiesce", "allocs": kvInt(kv, "allocs"), "pm": kvInt(kv, "pm"), "sm": kvInt(kv, "sm")}
	case "h_state":
		st := kvGet(kv, "st").(memory.VerifClassState)
		return M{"ev": "state", "c": st.Class + 1, "st": n.state(&st)}
	case "h_reset":
		*n = *newNorm(n.t)
		return M{"ev": "Reset"}
	}
	return nil
}

type hdrJ struct {
	P    int   `json:"p"`
	Brk  int   `json:"brk"`
	Used int   `json:"used"`
	Free int   `json:"free"`
	Evac bool  `json:"evac"`
	Fl   []int `json:"fl"`
}
type psJ struct {
	P int `json:"p"`
	S int `json:"s"`
}
type stateJ struct {
	Broken    string `json:"broken"`
	Pages     []int  `json:"pages"`
	Hdr       []hdrJ `json:"hdr"`
	G         []psJ  `json:"g"`
	Cur       int    `json:"cur"`
	PageCount int    `json:"pageCount"`
	FreeSlots int    `json:"freeSlots"`
}

// projection of the real bookkeeping of a class, same shape as Proj(C) of the specification
func (n *norm) state(st *memory.VerifClassState) stateJ {
	o := stateJ{Broken: st.Broken, Pages: []int{}, Hdr: []hdrJ{}, G: []psJ{}, PageCount: st.PageCount, FreeSlots: st.FreeSlots}
	bad := func(s string) {
		if o.Broken == "" {
			o.Broken = s
		}
	}
	pid := func(a uintptr) int {
		if r, ok := n.pg[a]; ok && r.class == st.Class {
			return r.id
		}
		bad("page that was never linked through the hooks")
		return 0
	}
	for _, p := range st.Pages {
		id := pid(p.Addr)
		o.Pages = append(o.Pages, id)
		h := hdrJ{P: id, Brk: p.Brk, Used: p.Used, Free: p.Free, Evac: p.Evac, Fl: []int{}}
		if p.Class != st.Class {
			bad("page header names another class")
		}
		for _, a := range p.FreeList {
			_, s, al := n.slotOf(st.Class, a)
			if !al {
				bad("free list entry is not a slot address")
			}
			h.Fl = append(h.Fl, s)
		}
		o.Hdr = append(o.Hdr, h)
	}
	for _, a := range st.Global {
		p, s, al := n.slotOf(st.Class, a)
		if !al || p == 0 {
			bad("class free list entry is not a slot of a linked page")
		}
		o.G = append(o.G, psJ{p, s})
	}
	if st.Cur != 0 {
		o.Cur = pid(st.Cur)
	}
	if len(st.Pages) > 0 && (st.First != st.Pages[0].Addr || st.Last != st.Pages[len(st.Pages)-1].Addr) {
		bad("firstPage/lastPage are not the ends of the page list")
	}
	if len(st.Pages) == 0 && (st.First != 0 || st.Last != 0) {
		bad("firstPage/lastPage set in a class without pages")
	}
	return o
}

// ---------------------------------------------------------------- allocations of the driver

type arec struct {
	id   int64
	b    *[]byte
	size int
	hdr  uintptr
}

const (
	k1 = 0x9E3779B97F4A7C15
	k2 = 0xD6E8FEB86659FD93
)

func fill(b []byte, id int64) {
	i, w := 0, uint64(id)*k1
	for ; i+8 <= len(b); i += 8 {
		binary.LittleEndian.PutUint64(b[i:], w)
		w += k2
	}
	for ; i < len(b); i++ {
		b[i] = byte(w >> (8 * uint(i&7)))
	}
}

func check(b []byte, id int64) int {
	i, w := 0, uint64(id)*k1
	for ; i+8 <= len(b); i += 8 {
		if binary.LittleEndian.Uint64(b[i:]) != w {
			return i
		}
		w += k2
	}
	for ; i < len(b); i++ {
		if b[i] != byte(w>>(8*uint(i&7))) {
			return i
		}
	}
	return -1
}

type world struct {
	a                                    *memory.Allocator
	mu                                   sync.Mutex
	byPtr                                map[uintptr]*arec
	fails                                []M
	next                                 atomic.Int64
	maxShared                            int
	ndropped                             int
	passes, passesMulti, passesMultiWork int
	dropped                              map[uintptr]bool // slices the driver abandoned after a failed check (never freed, never touched)
	// pages unlinked / slots moved in the defragmentation that is running (hook view)
	cbSeen map[uintptr]int
}

func (w *world) fail(kind, what string, r *arec) {
	w.mu.Lock()
	if len(w.fails) < 50 {
		m := M{"fail": kind, "what": what}
		if r != nil {
			m["alloc"] = r.id
			m["size"] = r.size
		}
		w.fails = append(w.fails, m)
	}
	w.mu.Unlock()
}

func sliceHdr(b *[]byte) *reflect.SliceHeader { return (*reflect.SliceHeader)(unsafe.Pointer(b)) }

// verify what the property promises about one live slice
func (w *world) verify(r *arec, where string) bool {
	sh := sliceHdr(r.b)
	if sh.Len != r.size || sh.Cap < r.size {
		w.fail("lencap", fmt.Sprintf("%s: slice of requested size %d has len %d cap %d", where, r.size, sh.Len, sh.Cap), r)
		return false
	}
	if sh.Data != uintptr(unsafe.Pointer(r.b))+uintptr(hdrLen) {
		w.fail("lencap", fmt.Sprintf("%s: data pointer of the slice moved away from its slot", where), r)
		return false
	}
	if at := check(*r.b, r.id); at >= 0 {
		w.fail("content", fmt.Sprintf("%s: live allocation no longer holds the bytes written to it (first difference at offset %d of %d)", where, at, r.size), r)
		return false
	}
	return true
}

func (w *world) malloc(size int) *arec {
	b := w.a.Malloc(size)
	if b == nil {
		w.fail("nil", fmt.Sprintf("Malloc(%d) returned nil", size), nil)
		return nil
	}
	r := &arec{id: w.next.Add(1), b: b, size: size, hdr: uintptr(unsafe.Pointer(b))}
	sh := sliceHdr(b)
	if sh.Len != size || sh.Cap < size {
		w.fail("lencap", fmt.Sprintf("Malloc(%d) returned len %d cap %d", size, sh.Len, sh.Cap), r)
		// do not write beyond what is really there
		w.drop(r.hdr)
		return nil
	}
	if size+hdrLen <= w.maxShared {
		// a shared slot lies inside one 1 MiB page, behind the page header
		pg := r.hdr &^ uintptr(memory.VerifPageSize-1)
		if r.hdr < pg+uintptr(memory.VerifHeaderSize) || sh.Data+uintptr(sh.Cap) > pg+uintptr(memory.VerifPageSize) {
			w.fail("lencap", fmt.Sprintf("Malloc(%d) returned a slice that does not lie inside its page (offset %d, cap %d)", size, r.hdr-pg, sh.Cap), r)
			w.drop(r.hdr)
			return nil
		}
	}
	w.mu.Lock()
	if o := w.byPtr[r.hdr]; o != nil {
		w.mu.Unlock()
		w.fail("alias", fmt.Sprintf("Malloc(%d) returned the slot of live allocation %d", size, o.id), r)
		w.drop(0)
		return nil
	}
	w.byPtr[r.hdr] = r
	w.mu.Unlock()
	fill(*b, r.id)
	return r
}

func (w *world) drop(p uintptr) {
	w.mu.Lock()
	w.ndropped++
	if p != 0 {
		w.dropped[p] = true
	}
	w.mu.Unlock()
}

func (w *world) free(r *arec) {
	ok := w.verify(r, "before Free")
	w.mu.Lock()
	delete(w.byPtr, r.hdr)
	w.mu.Unlock()
	if ok {
		w.a.Free(r.b)
	} else {
		w.drop(r.hdr)
	}
	// a corrupted slice is not handed back: its header can no longer be trusted
}

// relocate callback (runs in the goroutines of DefragAllImproved)
func (w *world) relocate(o, n *[]byte) {
	op, np := uintptr(unsafe.Pointer(o)), uintptr(unsafe.Pointer(n))
	w.mu.Lock()
	r := w.byPtr[op]
	w.cbSeen[op]++
	ok := r != nil && w.byPtr[np] == nil
	wasDropped := w.dropped[op]
	if wasDropped {
		delete(w.dropped, op)
		w.dropped[np] = true
	}
	if r != nil {
		delete(w.byPtr, op)
		r.b, r.hdr = n, np
		w.byPtr[np] = r
	}
	w.mu.Unlock()
	if r == nil && wasDropped {
		ok = true // the allocator still owns it, the driver just stopped looking at it
	} else if r == nil {
		w.fail("relocate", "relocate callback for a slice that is not a live allocation", nil)
	} else if !ok {
		w.fail("relocate", "relocate callback moves an allocation onto a live one", r)
	} else if !w.verify(r, "in relocate callback") {
		ok = false
	}
	verif.Event("h_cb", "old", op, "new", np, "ok", ok)
}

// address ranges of all live allocations are pairwise disjoint
func (w *world) overlap() {
	type rg struct {
		lo, hi uintptr
		r      *arec
	}
	var l []rg
	for _, r := range w.byPtr {
		sh := sliceHdr(r.b)
		l = append(l, rg{r.hdr, sh.Data + uintptr(sh.Cap), r})
	}
	sort.Slice(l, func(i, j int) bool { return l[i].lo < l[j].lo })
	for i := 1; i < len(l); i++ {
		if l[i].lo < l[i-1].hi {
			w.fail("overlap", fmt.Sprintf("live allocations %d and %d overlap in memory", l[i-1].r.id, l[i].r.id), l[i].r)
			return
		}
	}
}

// guard runs f; a fault or panic inside it (the driver only touches live slices, so this is the allocator
// walking into memory it must not touch) is reported with its stack and ends the process with status 3:
// the class mutex may be held by the dead call, nothing can continue.
var crashMu sync.Mutex
var onCrash func(what, stack string)

func guard(f func()) {
	debug.SetPanicOnFault(true)
	defer func() {
		if x := recover(); x != nil {
			buf := make([]byte, 32<<10)
			n := runtime.Stack(buf, false)
			crashMu.Lock()
			onCrash(fmt.Sprint(x), string(buf[:n]))
			os.Exit(3)
		}
	}()
	f()
}

// the fault happened inside the allocator, or while the driver read or wrote a slice it holds as live
func inAllocator(stack string) bool {
	return strings.Contains(stack, "lib/others/memory.") || strings.Contains(stack, "main.fill(") ||
		strings.Contains(stack, "main.check(") || strings.Contains(stack, ".verify(")
}

// ---------------------------------------------------------------- recording driver

type recCfg struct {
	g, ops, rounds int
	smallcap       bool
	defrag         bool
	maxLive        int
}

func pickSize(rnd *rand.Rand, t *table, small bool) int {
	top := t.N - 1
	k := rnd.Intn(100)
	boundary := func(c int) int {
		switch rnd.Intn(4) {
		case 0:
			return t.Data[c] // largest size of the class
		case 1:
			if c > 0 {
				return t.Data[c-1] + 1 // smallest size of the class
			}
			return 0
		case 2:
			return t.Data[c] - 1
		default:
			lo := 0
			if c > 0 {
				lo = t.Data[c-1] + 1
			}
			return lo + rnd.Intn(t.Data[c]-lo+1)
		}
	}
	switch {
	case small && k < 70: // the shrunk classes: page transitions on nearly every call
		return boundary(top - rnd.Intn(3))
	case k < 45: // large classes, few slots per page
		return boundary(top - rnd.Intn(8))
	case k < 65: // any class boundary
		return boundary(rnd.Intn(t.N))
	case k < 75: // private mappings
		switch rnd.Intn(3) {
		case 0:
			return t.Data[top] + 1
		case 1:
			return 200 << 10
		default:
			return t.Data[top] + 1 + rnd.Intn((200<<10)-t.Data[top])
		}
	case k < 78:
		return rnd.Intn(3)
	default:
		return rnd.Intn(200<<10 + 1)
	}
}

func runOne(w *world, cap_ *capture, nm *norm, enc *json.Encoder, t table, cfg recCfg, seed int64) (events int) {
	rnd := rand.New(rand.NewSource(seed))
	flush := func() {
		for _, e := range cap_.take() {
			if m := nm.conv(e); m != nil {
				enc.Encode(m)
				events++
			}
		}
	}
	quiesce := func(where string) {
		// every goroutine is parked here
		flush()
		for _, r := range w.byPtr {
			w.verify(r, where)
		}
		w.overlap()
		if n := w.a.Allocs.Load(); n != int64(len(w.byPtr)+w.ndropped) {
			w.fail("allocs", fmt.Sprintf("%s: Allocator.Allocs = %d with %d live allocations", where, n, len(w.byPtr)+w.ndropped), nil)
		}
		verif.Event("h_quiesce", "allocs", int(w.a.Allocs.Load()), "pm", int(w.a.PrivateMmaps.Load()), "sm", int(w.a.SharedMmaps.Load()))
		var cl []int
		for c := range nm.touched {
			cl = append(cl, c)
		}
		sort.Ints(cl)
		nm.touched = map[int]bool{}
		for _, c := range cl {
			verif.Event("h_state", "st", w.a.VerifClassState(c))
		}
		flush()
	}
	verif.Event("h_reset")
	flush()

	pool := make(chan *arec, 64)
	lives := make([][]*arec, cfg.g)
	for round := 0; round < cfg.rounds; round++ {
		burst := cfg.defrag && round%2 == 1
		// a burst fragments the largest class and one or two of its neighbours at the same time, so that
		// DefragAllImproved runs several defragClass goroutines side by side; the first burst of a run is
		// sized to put every chosen class above the threshold for certain, later ones reach arbitrary levels
		burstClasses := []int{t.N - 1, t.N - 2 - rnd.Intn(2)}
		if rnd.Intn(4) == 0 {
			burstClasses = []int{t.N - 1, t.N - 2, t.N - 3}
		}
		// half of the records of 2*(From+2).. pages stay: > From pages worth of free slots for certain, hardly an
		// empty page, so every chosen class has records to move
		burstPages := 2*(t.From+2) + rnd.Intn(4)
		keepPct := 45 + rnd.Intn(11)
		if round > 1 {
			burstPages = t.From + 2 + rnd.Intn(19)
			keepPct = 5 + rnd.Intn(66)
		}
		var filled sync.WaitGroup // all goroutines fill first, then all free: freed slots are not taken again
		filled.Add(cfg.g)
		worker := func(g int, s int64) {
			r := rand.New(rand.NewSource(s))
			mine := lives[g]
			if burst {
				// fragment the classes: fill many pages of each, then free most of it in random order
				got := make([][]*arec, len(burstClasses))
				for k, bc := range burstClasses {
					for i := 0; i < t.Cap[bc]*burstPages/cfg.g+1; i++ {
						if x := w.malloc(t.Data[bc] - r.Intn(2)); x != nil {
							got[k] = append(got[k], x)
						}
					}
				}
				filled.Done()
				filled.Wait()
				for k := range got {
					l := got[k]
					r.Shuffle(len(l), func(i, j int) { l[i], l[j] = l[j], l[i] })
					keep := len(l) * keepPct / 100 // exact numbers: the fragmentation level does not depend on luck
					if g == 0 && keep == 0 {
						keep = 1 // live records stay in every fragmented class
					}
					for i, x := range l {
						if i < keep {
							mine = append(mine, x)
						} else {
							w.free(x)
						}
					}
				}
				lives[g] = mine
				return
			}
			for i := 0; i < cfg.ops; i++ {
				k := r.Intn(100)
				switch {
				case len(mine) >= cfg.maxLive || (k < 42 && len(mine) > 0):
					j := r.Intn(len(mine))
					x := mine[j]
					mine[j] = mine[len(mine)-1]
					mine = mine[:len(mine)-1]
					if k%5 == 0 { // hand it to another goroutine: Free on a different thread than Malloc
						select {
						case pool <- x:
						default:
							w.free(x)
						}
					} else {
						w.free(x)
					}
				case k < 50:
					select {
					case x := <-pool:
						w.free(x)
					default:
					}
				case k < 56 && len(mine) > 0:
					// write again: "the bytes last written" are the new ones from here on
					x := mine[r.Intn(len(mine))]
					if w.verify(x, "before rewrite") {
						x.id = w.next.Add(1)
						fill(*x.b, x.id)
					}
				default:
					if x := w.malloc(pickSize(r, &t, cfg.smallcap)); x != nil {
						mine = append(mine, x)
					}
				}
			}
			lives[g] = mine
		}
		var wg sync.WaitGroup
		for g := 0; g < cfg.g; g++ {
			wg.Add(1)
			go func(g int, s int64) {
				defer wg.Done()
				guard(func() { worker(g, s) })
			}(g, seed*1000003+int64(round)*131+int64(g))
		}
		wg.Wait()
		quiesce(fmt.Sprintf("after round %d", round))
		if cfg.defrag {
			w.cbSeen = map[uintptr]int{}
			before := map[uintptr]*arec{}
			for p, r := range w.byPtr {
				before[p] = r
			}
			w.a.DefragAllImproved(w.relocate)
			// which pages did the allocator unmap, which slots did it move (hook view, not yet flushed)
			gone := map[uintptr]bool{}
			moved := map[uintptr]int{}
			chosen, worked := map[int]bool{}, map[int]bool{}
			for _, e := range cap_.evs {
				switch e.name {
				case "mem_defrag_all":
					chosen[kvInt(e.kv, "class")] = true
				case "mem_defrag_sel":
					worked[kvInt(e.kv, "class")] = true
				}
				switch e.name {
				case "mem_unlink":
					gone[kvPtr(e.kv, "page")] = true
				case "mem_relocate":
					moved[kvPtr(e.kv, "old")]++
				}
			}
			w.passes++
			if len(chosen) >= 2 {
				w.passesMulti++ // several defragClass goroutines side by side
			}
			if len(worked) >= 2 {
				w.passesMultiWork++ // ... and at least two of them relocated records
			}
			bad := false
			for p, r := range before {
				if gone[p&^uintptr(t.PageSize-1)] && w.cbSeen[p] != 1 {
					w.fail("relocate", fmt.Sprintf("page of a live allocation was unmapped by defragmentation, relocate callback ran %d times for it", w.cbSeen[p]), r)
					// the driver's pointer is dangling: forget the allocation instead of touching it
					if w.byPtr[p] == r {
						delete(w.byPtr, p)
					}
					for g := range lives {
						for j := 0; j < len(lives[g]); j++ {
							if lives[g][j] == r {
								lives[g] = append(lives[g][:j], lives[g][j+1:]...)
								j--
							}
						}
					}
					bad = true
				}
			}
			for p, n := range moved {
				if n != 1 || w.cbSeen[p] != 1 {
					w.fail("relocate", fmt.Sprintf("slot moved %d times, relocate callback ran %d times", n, w.cbSeen[p]), before[p])
					bad = true
				}
			}
			for p, n := range w.cbSeen {
				if moved[p] != 1 {
					w.fail("relocate", fmt.Sprintf("relocate callback ran %d times for a slot that was moved %d times", n, moved[p]), before[p])
					bad = true
				}
			}
			if bad {
				flush()
				return
			}
			quiesce(fmt.Sprintf("after defragmentation %d", round))
		}
	}
	// drain: everything is freed, concurrently
	for {
		select {
		case x := <-pool:
			lives[0] = append(lives[0], x)
			continue
		default:
		}
		break
	}
	var wg sync.WaitGroup
	for g := 0; g < cfg.g; g++ {
		wg.Add(1)
		go func(g int) {
			defer wg.Done()
			guard(func() {
				for _, x := range lives[g] {
					w.free(x)
				}
			})
		}(g)
	}
	wg.Wait()
	quiesce("at the end")
	return
}

func cmdRecord(args []string) {
	fs := flag.NewFlagSet("record", flag.ExitOnError)
	outF := fs.String("out", "trace.ndjson", "")
	seed := fs.Int64("seed", 1, "")
	runs := fs.Int("runs", 4, "")
	g := fs.Int("g", 0, "goroutines (0: 1,2,4,16 in turn)")
	ops := fs.Int("ops", 200, "")
	rounds := fs.Int("rounds", 4, "")
	small := fs.Bool("smallcap", false, "shrink the three largest classes to 2,3,4 slots per page")
	defrag := fs.Bool("defrag", false, "fragment a large class and run DefragAllImproved in every other round")
	maxLive := fs.Int("maxlive", 24, "")
	fs.Parse(args)

	cap_ := &capture{}
	cap_.install()
	f, err := os.Create(*outF)
	if err != nil {
		fmt.Fprintln(os.Stderr, err)
		os.Exit(2)
	}
	defer f.Close()
	enc := json.NewEncoder(f)
	out := vio.NewOut()
	events, nfail := 0, 0
	passes, multi, multiWork := 0, 0, 0
	var t table
	gs := []int{1, 2, 4, 16, 3, 8}
	for r := 0; r < *runs; r++ {
		a := memory.NewAllocator()
		if *small {
			n := memory.VerifClasses()
			a.VerifSetCap(n-1, 2)
			a.VerifSetCap(n-2, 3)
			a.VerifSetCap(n-3, 4)
		}
		t = classTable(a)
		w := &world{a: a, byPtr: map[uintptr]*arec{}, cbSeen: map[uintptr]int{}, dropped: map[uintptr]bool{}, maxShared: a.MaxSharedSize}
		cfg := recCfg{g: *g, ops: *ops, rounds: *rounds, smallcap: *small, defrag: *defrag, maxLive: *maxLive}
		if cfg.g == 0 {
			cfg.g = gs[r%len(gs)]
		}
		onCrash = func(what, stack string) {
			for _, m := range w.fails {
				m["run"] = r
				m["g"] = cfg.g
				m["seed"] = *seed
				out.Put(m)
			}
			out.Put(M{"fail": "crash", "what": "fault inside the allocator while the driver only touched live slices: " + what,
				"stack": stack, "in_allocator": inAllocator(stack), "run": r, "g": cfg.g, "seed": *seed})
			out.Put(M{"summary": true, "events": events, "runs": r, "fail": nfail + len(w.fails) + 1, "aborted": true})
			out.Flush()
			f.Sync()
		}
		guard(func() { events += runOne(w, cap_, newNorm(t), enc, t, cfg, *seed*7919+int64(r)) })
		for _, m := range w.fails {
			m["run"] = r
			m["g"] = cfg.g
			m["seed"] = *seed
			out.Put(m)
			nfail++
		}
		passes, multi, multiWork = passes+w.passes, multi+w.passesMulti, multiWork+w.passesMultiWork
		a.VerifReset()
	}
	tj, _ := json.Marshal(t)
	os.WriteFile(*outF+".opts.json", tj, 0660)
	out.Put(M{"summary": true, "events": events, "runs": *runs, "fail": nfail, "gomaxprocs": runtime.GOMAXPROCS(0),
		"defrag_passes": passes, "passes_2_classes_chosen": multi, "passes_2_classes_relocating": multiWork})
	out.Flush()
}

// ---------------------------------------------------------------- replay driver (G->R)

type Step struct {
	A      string  `json:"a"`
	Size   int     `json:"size"`
	C      int     `json:"c"`
	ID     int     `json:"id"`
	P      int     `json:"p"`
	S      int     `json:"s"`
	Sel    []int   `json:"sel"`
	NP     int     `json:"np"`
	NS     int     `json:"ns"`
	St     *stateM `json:"st"`
	Allocs int     `json:"allocs"`
	PM     int     `json:"pm"`
	SM     int     `json:"sm"`
	chk    bool
}

type stateM struct {
	stateJ
	Live []struct {
		P   int `json:"p"`
		S   int `json:"s"`
		ID  int `json:"id"`
		Len int `json:"len"`
	} `json:"live"`
}

type Line struct {
	Path  []Step `json:"path"`
	Last  *Step  `json:"last"`
	Steps []Step `json:"steps"`
}

type result struct {
	N    int         `json:"n"`
	OK   bool        `json:"ok"`
	Kind string      `json:"kind,omitempty"` // "property": C20 itself broken; "policy": code and model choose differently
	Step int         `json:"step,omitempty"`
	What string      `json:"what,omitempty"`
	Line interface{} `json:"line,omitempty"`
}

// the model's classes 1..k are the k largest real classes, shrunk to the model's capacities (class c: c+1 slots)
type mapping struct {
	t  table
	rc map[int]int // model class -> real class
}

func (m *mapping) realSize(v int) int {
	k := len(m.rc)
	if v > 2*k {
		return m.t.Data[m.t.N-1] + 1 + (v-2*k-1)*4096
	}
	c := (v + 1) / 2
	if c == 0 {
		return 0
	}
	if v%2 == 0 {
		return m.t.Data[m.rc[c]]
	}
	return m.t.Data[m.rc[c]-1] + 1
}

type replayer struct {
	a    *memory.Allocator
	cap_ *capture
	m    mapping
}

func sameInts(a, b []int) bool {
	if len(a) != len(b) {
		return false
	}
	for i := range a {
		if a[i] != b[i] {
			return false
		}
	}
	return true
}

func diffState(got stateJ, want *stateM) string {
	if got.Broken != "" {
		return "bookkeeping is inconsistent: " + got.Broken
	}
	if !sameInts(got.Pages, want.Pages) {
		return fmt.Sprintf("page list %v, model %v", got.Pages, want.Pages)
	}
	if got.Cur != want.Cur || got.PageCount != want.PageCount || got.FreeSlots != want.FreeSlots {
		return fmt.Sprintf("cur/pageCount/freeSlots = %d/%d/%d, model %d/%d/%d", got.Cur, got.PageCount, got.FreeSlots, want.Cur, want.PageCount, want.FreeSlots)
	}
	for i, h := range got.Hdr {
		w := want.Hdr[i]
		if h.P != w.P || h.Brk != w.Brk || h.Used != w.Used || h.Free != w.Free || h.Evac != w.Evac || !sameInts(h.Fl, w.Fl) {
			return fmt.Sprintf("page %d header %+v, model %+v", h.P, h, w)
		}
	}
	if len(got.G) != len(want.G) {
		return fmt.Sprintf("class free list %v, model %v", got.G, want.G)
	}
	for i := range got.G {
		if got.G[i] != want.G[i] {
			return fmt.Sprintf("class free list %v, model %v", got.G, want.G)
		}
	}
	return ""
}

// unsound: what C20 itself demands of the bookkeeping read back from memory, given the slots the driver holds
// as live (no assumption about allocation policy). "" = sound.
func unsound(got stateJ, live map[psJ]bool, k int) string {
	if got.Broken != "" {
		return "bookkeeping is inconsistent: " + got.Broken
	}
	g := map[psJ]bool{}
	for _, x := range got.G {
		if g[x] {
			return fmt.Sprintf("slot %v is twice on the class free list", x)
		}
		if live[x] {
			return fmt.Sprintf("live slot %v is on the class free list", x)
		}
		g[x] = true
	}
	np, fs := 0, 0
	for _, h := range got.Hdr {
		seen := map[int]bool{}
		for _, s := range h.Fl {
			x := psJ{h.P, s}
			if seen[s] {
				return fmt.Sprintf("slot %v is twice on the free list of its page", x)
			}
			if live[x] {
				return fmt.Sprintf("live slot %v is on the free list of its page", x)
			}
			if !g[x] {
				return fmt.Sprintf("slot %v is on the free list of its page but not on the class free list", x)
			}
			seen[s] = true
			np++
		}
		used := 0
		for x := range live {
			if x.P == h.P {
				used++
			}
		}
		if h.Used != used || h.Free != k-used {
			return fmt.Sprintf("page %d header says used/free = %d/%d with %d live slots of %d", h.P, h.Used, h.Free, used, k)
		}
		if h.Brk > k {
			return fmt.Sprintf("page %d: brk %d beyond the capacity %d", h.P, h.Brk, k)
		}
		fs += h.Free
	}
	if np != len(g) {
		return "class free list holds slots that are on no page's free list"
	}
	if got.PageCount != len(got.Hdr) || got.FreeSlots != fs {
		return fmt.Sprintf("pageCount/freeSlots = %d/%d, pages hold %d/%d", got.PageCount, got.FreeSlots, len(got.Hdr), fs)
	}
	for x := range live {
		ok := false
		for _, h := range got.Hdr {
			if h.P == x.P {
				ok = true
			}
		}
		if !ok || x.S >= k {
			return fmt.Sprintf("live slot %v is not a slot of a linked page", x)
		}
	}
	return ""
}

// one replays a line on a freshly reset allocator. A fault unwinds through it without cleanup (the class
// mutex may be held by the dead call; the process ends in guard).
func (rp *replayer) one(ln *Line) (step int, kind, what string) {
	w := &world{a: rp.a, byPtr: map[uintptr]*arec{}, cbSeen: map[uintptr]int{}, dropped: map[uintptr]bool{}, maxShared: rp.a.MaxSharedSize}
	step, kind, what = rp.run(ln, w)
	if kind != "property" {
		for _, r := range w.byPtr {
			rp.a.Free(r.b)
		}
	}
	return
}

func (rp *replayer) run(ln *Line, w *world) (step int, kind, what string) {
	a := rp.a
	a.VerifReset()
	rp.cap_.take()
	for mc, rc := range rp.m.rc {
		a.VerifSetCap(rc, uint32(mc+1))
	}
	t := classTable(a)
	nm := newNorm(t)
	byID := map[int]*arec{}
	var steps []Step
	if ln.Last != nil {
		steps = append(steps, ln.Path...)
		l := *ln.Last
		l.chk = true
		steps = append(steps, l)
	} else {
		for _, st := range ln.Steps {
			st.chk = true
			steps = append(steps, st)
		}
	}
	var dq []M // events of the defragmentation that has been run, not yet matched with model steps
	events := func() (l []M) {
		for _, e := range rp.cap_.take() {
			if m := nm.conv(e); m != nil && m["ev"] != "dall" && m["ev"] != "dbegin" && m["ev"] != "dallend" {
				l = append(l, m)
			}
		}
		return
	}
	for i := range steps {
		st := &steps[i]
		rc := rp.m.rc[st.C]
		nfail := len(w.fails)
		switch st.A {
		case "malloc", "pmalloc":
			r := w.malloc(rp.m.realSize(st.Size))
			ev := events()
			if len(w.fails) > nfail {
				return i, "property", w.fails[nfail]["what"].(string)
			}
			byID[st.ID] = r
			if st.A == "pmalloc" {
				if len(ev) != 1 || ev[0]["ev"] != "pmalloc" {
					return i, "policy", fmt.Sprintf("Malloc(%d) expected on the private path, events %v", r.size, ev)
				}
				break
			}
			last := ev[len(ev)-1]
			if last["ev"] != "malloc" || last["c"] != rc+1 {
				return i, "policy", fmt.Sprintf("Malloc(%d) expected in class %d, events %v", r.size, rc, ev)
			}
			if last["aligned"] != true {
				return i, "property", fmt.Sprintf("Malloc(%d) returned an address that is not a slot of its page: %v", r.size, last)
			}
			if last["p"] != st.P || last["s"] != st.S {
				return i, "policy", fmt.Sprintf("Malloc returned page %v slot %v, model predicts page %d slot %d", last["p"], last["s"], st.P, st.S)
			}
		case "free", "pfree":
			r := byID[st.ID]
			if r == nil {
				return i, "policy", "replay refers to an unknown allocation"
			}
			w.free(r)
			delete(byID, st.ID)
			ev := events()
			if len(w.fails) > nfail {
				return i, "property", w.fails[nfail]["what"].(string)
			}
			if st.A == "free" && (len(ev) != 1 || ev[0]["ev"] != "free" || ev[0]["p"] != st.P || ev[0]["s"] != st.S || ev[0]["released"] != 0) {
				return i, "policy", fmt.Sprintf("Free of page %d slot %d, events %v", st.P, st.S, ev)
			}
		case "dsel":
			w.cbSeen = map[uintptr]int{}
			a.VerifDefragClass(rc, w.relocate)
			dq = events()
			if len(w.fails) > nfail {
				return i, "property", w.fails[nfail]["what"].(string)
			}
			if len(dq) == 0 || dq[0]["ev"] != "dsel" {
				return i, "policy", fmt.Sprintf("defragClass selected nothing, model selects pages %v", st.Sel)
			}
			if !sameInts(dq[0]["pages"].([]int), st.Sel) {
				return i, "policy", fmt.Sprintf("defragClass selected pages %v, model selects %v", dq[0]["pages"], st.Sel)
			}
			dq = dq[1:]
			// exactly one callback right before every move
			for j, e := range dq {
				if e["ev"] == "reloc" {
					if j == 0 || dq[j-1]["ev"] != "cb" || dq[j-1]["p"] != e["p"] || dq[j-1]["s"] != e["s"] || dq[j-1]["np"] != e["np"] || dq[j-1]["ns"] != e["ns"] {
						return i, "property", fmt.Sprintf("slot %v/%v moved without exactly one relocate callback for it", e["p"], e["s"])
					}
				}
				if e["ev"] == "cb" && (j+1 >= len(dq) || dq[j+1]["ev"] != "reloc") {
					return i, "property", "relocate callback without a move"
				}
			}
		case "drel", "dunl", "dend":
			want := map[string]string{"drel": "reloc", "dunl": "dunl", "dend": "dend"}[st.A]
			for len(dq) > 0 && (dq[0]["ev"] == "link" || dq[0]["ev"] == "cb") {
				dq = dq[1:]
			}
			if len(dq) == 0 || dq[0]["ev"] != want {
				return i, "policy", fmt.Sprintf("model step %s, next event of defragClass %v", st.A, dq)
			}
			e := dq[0]
			dq = dq[1:]
			switch st.A {
			case "drel":
				if e["p"] != st.P || e["s"] != st.S || e["np"] != st.NP || e["ns"] != st.NS {
					return i, "policy", fmt.Sprintf("defragClass moved %v/%v to %v/%v, model moves %d/%d to %d/%d", e["p"], e["s"], e["np"], e["ns"], st.P, st.S, st.NP, st.NS)
				}
			case "dunl":
				if e["p"] != st.P {
					return i, "policy", fmt.Sprintf("defragClass unlinked page %v, model page %d", e["p"], st.P)
				}
			case "dend":
				if e["cnt"] != st.Size {
					return i, "property", fmt.Sprintf("defragClass reports %v moved records, model %d", e["cnt"], st.Size)
				}
			}
		default:
			return i, "policy", "unknown action " + st.A
		}
		// what the property promises, after every step
		for _, r := range w.byPtr {
			w.verify(r, "after "+st.A)
		}
		w.overlap()
		if len(w.fails) > nfail {
			return i, "property", w.fails[nfail]["what"].(string)
		}
		inDefrag := st.A == "dsel" || st.A == "drel" || st.A == "dunl"
		if !st.chk || inDefrag {
			continue
		}
		if n := int(a.Allocs.Load()); n != len(w.byPtr)+w.ndropped {
			return i, "property", fmt.Sprintf("Allocator.Allocs = %d with %d live allocations", n, len(w.byPtr)+w.ndropped)
		} else if n != st.Allocs {
			return i, "policy", fmt.Sprintf("Allocator.Allocs = %d, model %d", n, st.Allocs)
		}
		if pm, sm := int(a.PrivateMmaps.Load()), int(a.SharedMmaps.Load()); pm != st.PM || sm != st.SM {
			return i, "policy", fmt.Sprintf("PrivateMmaps/SharedMmaps = %d/%d, model %d/%d", pm, sm, st.PM, st.SM)
		}
		if st.C != 0 && st.St != nil {
			cs := a.VerifClassState(rc)
			got := nm.state(&cs)
			if d := diffState(got, st.St); d != "" {
				live := map[psJ]bool{}
				for _, r := range w.byPtr {
					if r.size+hdrLen <= w.maxShared {
						if p, s, _ := nm.slotOf(rc, r.hdr); p != 0 {
							live[psJ{p, s}] = true
						}
					}
				}
				if u := unsound(got, live, t.Cap[rc]); u != "" {
					return i, "property", "class bookkeeping after " + st.A + ": " + u
				}
				return i, "policy", "class bookkeeping after " + st.A + ": " + d
			}
			// live slots as the model sees them are the driver's live allocations
			for _, lv := range st.St.Live {
				r := byID[lv.ID]
				if r == nil {
					return i, "policy", "model holds an allocation the driver does not"
				}
				p, s, _ := nm.slotOf(rc, r.hdr)
				if p != lv.P || s != lv.S {
					return i, "policy", fmt.Sprintf("allocation %d lives in page %d slot %d, model page %d slot %d", lv.ID, p, s, lv.P, lv.S)
				}
			}
		}
	}
	return -1, "", ""
}

func cmdReplay(args []string) {
	fs := flag.NewFlagSet("replay", flag.ExitOnError)
	in := fs.String("in", "-", "")
	maxFail := fs.Int("maxfail", 20, "")
	classes := fs.Int("classes", 2, "classes of the model")
	fs.Parse(args)
	// one allocator, one worker: the hook sink is process-wide and the per-step event windows must not mix
	cap_ := &capture{}
	cap_.install()
	a := memory.NewAllocator()
	t := classTable(a)
	m := mapping{t: t, rc: map[int]int{}}
	for c := 1; c <= *classes; c++ {
		m.rc[c] = t.N - *classes + c - 1
	}
	rp := &replayer{a: a, cap_: cap_, m: m}
	out := vio.NewOut()
	var nLines, nSteps, nFail, nPolicy int
	err := vio.ReadLines(*in, func(n int, raw []byte) error {
		var ln Line
		nLines++
		if err := json.Unmarshal(raw, &ln); err != nil {
			out.Put(result{N: n, OK: false, Kind: "policy", What: "unparsable line: " + err.Error()})
			nFail += 1000000
			return nil
		}
		nSteps += len(ln.Path) + len(ln.Steps)
		if ln.Last != nil {
			nSteps++
		}
		var step int
		var kind, what string
		onCrash = func(cw, stack string) {
			k := "policy"
			if inAllocator(stack) {
				k = "property"
			}
			out.Put(result{N: n, OK: false, Kind: k, Step: -1, What: "fault while replaying: " + cw + "\n" + stack, Line: json.RawMessage(append([]byte(nil), raw...))})
			out.Put(M{"summary": true, "lines": nLines, "steps": nSteps, "fail": nFail + 1, "policy": nPolicy, "aborted": true})
			out.Flush()
		}
		guard(func() { step, kind, what = rp.one(&ln) })
		if what != "" {
			nFail++
			if kind == "policy" {
				nPolicy++
			}
			if nFail <= *maxFail {
				out.Put(result{N: n, OK: false, Kind: kind, Step: step, What: what, Line: json.RawMessage(append([]byte(nil), raw...))})
			}
		}
		return nil
	})
	if err != nil {
		fmt.Fprintln(os.Stderr, "read:", err)
		os.Exit(2)
	}
	out.Put(M{"summary": true, "lines": nLines, "steps": nSteps, "fail": nFail, "policy": nPolicy})
	out.Flush()
}

func main() {
	if len(os.Args) < 2 {
		fmt.Fprintln(os.Stderr, "usage: alloc info|record|replay ...")
		os.Exit(2)
	}
	switch os.Args[1] {
	case "info":
		a := memory.NewAllocator()
		b, _ := json.Marshal(classTable(a))
		fmt.Println(string(b))
	case "record":
		cmdRecord(os.Args[2:])
	case "replay":
		cmdReplay(os.Args[2:])
	default:
		os.Exit(2)
	}
}
