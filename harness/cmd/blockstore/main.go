// blockstore: conformance driver binding spec/BlockStore.tla to lib/chain.BlockDB.
//
//	blockstore replay -in <lines> -opts <json> -workers N -dir <scratch>
//	    every line is a TLC-exported behaviour {"path":[..],"last":{..}} or {"steps":[..]};
//	    it is replayed on a fresh BlockDB and the model's predictions are compared.
//	blockstore record -out <ndjson> -opts <json> -seed S -traces K -ops N -dir <scratch>
//	    seeded random histories on the real BlockDB, one event per specification action.
package main

import (
	"bytes"
	"encoding/binary"
	"encoding/json"
	"flag"
	"fmt"
	"math/rand"
	"os"
	"path/filepath"
	"sort"
	"sync/atomic"

	"github.com/piotrnar/gocoin/lib/btc"
	"github.com/piotrnar/gocoin/lib/chain"
	"github.com/piotrnar/gocoin/lib/others/snappy"

	"verifharness/vio"
)

type Opts struct {
	BLen     map[string]int `json:"blen"` // block id -> cells
	Unit     int            `json:"unit"` // bytes per cell
	MaxCache int            `json:"maxcache"`
	MaxDat   int            `json:"maxdat"` // cells, 0 = unlimited
	Keep     int            `json:"keep"`
	Backup   bool           `json:"backup"`
	Compress bool           `json:"compress"`
	Salt     int64          `json:"salt"`
}

type IdxRec struct {
	B    int  `json:"b"`
	Tr   bool `json:"tr"`
	Inv  bool `json:"inv"`
	File int  `json:"file"`
	Pos  int  `json:"pos"`
	Len  int  `json:"len"`
}

type WalkEnt struct {
	B  int  `json:"b"`
	Tr bool `json:"tr"`
}

type Step struct {
	A    string    `json:"a"`
	B    int       `json:"b"`
	Tr   bool      `json:"tr"`
	Res  string    `json:"res"`
	Walk []WalkEnt `json:"walk"`
	Idx  []IdxRec  `json:"idx"`
	Q    int       `json:"q"`
	chk  bool
}

type Line struct {
	Path  []Step `json:"path"`
	Last  *Step  `json:"last"`
	Steps []Step `json:"steps"`
}

// ---------------------------------------------------------------- concretisation

type blk struct {
	id     int
	raw    []byte
	hash   *btc.Uint256
	height uint32
	txs    int
}

type world struct {
	o      Opts
	blocks map[int]*blk
	byHash map[[32]byte]*blk
}

func newWorld(o Opts) *world {
	w := &world{o: o, blocks: map[int]*blk{}, byHash: map[[32]byte]*blk{}}
	for k, cells := range o.BLen {
		var id int
		fmt.Sscanf(k, "%d", &id)
		n := cells * o.Unit
		if n < 81 {
			n = 81
		}
		rnd := rand.New(rand.NewSource(o.Salt*1000003 + int64(id)))
		raw := make([]byte, n)
		rnd.Read(raw[:80])
		switch id % 4 { // content classes for the compressor
		case 3: // break-even: the snappy encoding is exactly as long as the block (found by search)
			rnd.Read(raw[80:])
			if n > 200 {
				base := append([]byte(nil), raw...)
			search:
				for t := 4; t < 200; t++ {
					for _, per := range []int{4, 5, 8, 10, 16, 32} {
						copy(raw, base)
						for i := 0; i < t; i++ {
							raw[80+per+i] = raw[80+i%per]
						}
						if len(snappy.Encode(nil, raw)) == n {
							break search
						}
					}
				}
			}
		case 0: // incompressible
			rnd.Read(raw[80:])
		case 1: // highly repetitive
			for i := 80; i < n; i++ {
				raw[i] = byte(id)
			}
		default: // mixed: repetitive with random islands
			for i := 80; i < n; i++ {
				if (i/64)%3 == 0 {
					raw[i] = byte(rnd.Intn(256))
				} else {
					raw[i] = byte(i / 7)
				}
			}
		}
		b := &blk{id: id, raw: raw, hash: btc.NewSha2Hash(raw[:80]), height: uint32(1000 + id), txs: 1 + id*3}
		w.blocks[id] = b
		w.byHash[b.hash.Hash] = b
	}
	return w
}

// ---------------------------------------------------------------- the system under test

type sut struct {
	w    *world
	dir  string
	db   *chain.BlockDB
	walk []walkObs
}

type walkObs struct {
	B      int
	Height uint32
	Blen   uint32
	Txs    uint32
	Tr     bool
}

func (s *sut) open() {
	s.db = chain.NewBlockDBExt(s.dir, &chain.BlockDBOpts{MaxCachedBlocks: s.w.o.MaxCache,
		MaxDataFileSize: uint64(s.w.o.MaxDat * s.w.o.Unit), DataFilesKeep: uint32(s.w.o.Keep),
		DataFilesBackup: s.w.o.Backup, CompressOnDisk: s.w.o.Compress})
	s.walk = nil
	db := s.db
	db.LoadBlockIndex(nil, func(ch *chain.Chain, hash, hdr []byte, height, blen, txs uint32) {
		var h [32]byte
		copy(h[:], hash)
		id := -1
		if b := s.w.byHash[h]; b != nil {
			id = b.id
		}
		s.walk = append(s.walk, walkObs{B: id, Height: height, Blen: blen, Txs: txs})
	})
	// trusted flag as the store reports it after the load
	for i := range s.walk {
		if b := s.w.blocks[s.walk[i].B]; b != nil {
			_, tr, _ := s.db.BlockGet(b.hash)
			s.walk[i].Tr = tr
		}
	}
}

func (s *sut) get(b *blk) string {
	data, _, err := s.db.BlockGet(b.hash)
	if err != nil || data == nil {
		return "err"
	}
	if bytes.Equal(data, b.raw) {
		return "ok"
	}
	return "corrupt"
}

type fileRec struct {
	B                    int
	Tr, Inv, Compr, Snap bool
	File                 int
	Pos                  uint64
	Len, Olen            uint32
	Height, Txs          uint32
}

func (s *sut) readIndex() (res []fileRec, trailing int) {
	d, _ := os.ReadFile(filepath.Join(s.dir, "blockchain.new"))
	for len(d) >= 136 {
		r := d[:136]
		d = d[136:]
		var h [32]byte
		copy(h[:], btc.NewSha2Hash(r[56:136]).Hash[:])
		id := -1
		if b := s.w.byHash[h]; b != nil {
			id = b.id
		}
		res = append(res, fileRec{B: id, Tr: r[0]&chain.BLOCK_TRUSTED != 0, Inv: r[0]&chain.BLOCK_INVALID != 0,
			Compr: r[0]&chain.BLOCK_COMPRSD != 0, Snap: r[0]&chain.BLOCK_SNAPPED != 0,
			File: int(binary.LittleEndian.Uint32(r[28:32])), Olen: binary.LittleEndian.Uint32(r[32:36]),
			Height: binary.LittleEndian.Uint32(r[36:40]), Pos: binary.LittleEndian.Uint64(r[40:48]),
			Len: binary.LittleEndian.Uint32(r[48:52]), Txs: binary.LittleEndian.Uint32(r[52:56])})
	}
	return res, len(d)
}

// do performs one specification action on the real store; obs is what the implementation showed.
func (s *sut) do(st *Step) (obs map[string]interface{}, err string) {
	defer func() {
		if r := recover(); r != nil {
			err = fmt.Sprint("panic: ", r)
		}
	}()
	obs = map[string]interface{}{}
	b := s.w.blocks[st.B]
	switch st.A {
	case "Add":
		bl := &btc.Block{Raw: b.raw, Hash: b.hash, TxCount: b.txs}
		if st.Tr {
			bl.Trusted.Set()
		}
		s.db.BlockAdd(b.height, bl)
	case "WriteOne":
		s.db.VerifWriteOne()
	case "Idle":
		s.db.Idle()
	case "Invalid":
		s.db.BlockInvalid(b.hash.Hash[:])
	case "Trusted":
		s.db.BlockTrusted(b.hash.Hash[:])
	case "Get":
		obs["res"] = s.get(b)
	case "Close":
		s.db.Close()
		s.db = nil
	case "Reopen":
		s.open()
		obs["walk"] = s.walk
	default:
		err = "unknown action " + st.A
	}
	return
}

// compare the prediction of the model for this step with the implementation
func (s *sut) check(st *Step, obs map[string]interface{}) string {
	switch st.A {
	case "Get":
		got := obs["res"].(string)
		if st.Res == "any" || st.Res == "gone" {
			if got == "corrupt" {
				return "Get returned bytes that are not the block's"
			}
		} else if got != st.Res {
			return fmt.Sprintf("Get(%d) = %s, model predicts %s", st.B, got, st.Res)
		}
	case "Reopen":
		if len(s.walk) != len(st.Walk) {
			return fmt.Sprintf("index walk lists %d blocks %v, model predicts %d %v", len(s.walk), s.walk, len(st.Walk), st.Walk)
		}
		for i, w := range s.walk {
			m := st.Walk[i]
			b := s.w.blocks[m.B]
			if w.B != m.B || w.Tr != m.Tr {
				return fmt.Sprintf("index walk[%d] = block %d trusted %v, model predicts block %d trusted %v", i, w.B, w.Tr, m.B, m.Tr)
			}
			if w.Height != b.height || w.Txs != uint32(b.txs) || w.Blen != uint32(len(b.raw)) {
				return fmt.Sprintf("index walk[%d] block %d: height/len/txs = %d/%d/%d, stored %d/%d/%d", i, w.B, w.Height, w.Blen, w.Txs, b.height, len(b.raw), b.txs)
			}
		}
	}
	// the index file, record by record
	recs, trailing := s.readIndex()
	if trailing != 0 {
		return fmt.Sprintf("index file has %d trailing bytes", trailing)
	}
	if len(recs) != len(st.Idx) {
		return fmt.Sprintf("index file holds %d records, model predicts %d", len(recs), len(st.Idx))
	}
	for i, r := range recs {
		m := st.Idx[i]
		b := s.w.blocks[m.B]
		if r.B != m.B || r.Tr != m.Tr || r.Inv != m.Inv || r.File != m.File {
			return fmt.Sprintf("index record %d = {b:%d tr:%v inv:%v file:%d}, model predicts {b:%d tr:%v inv:%v file:%d}", i, r.B, r.Tr, r.Inv, r.File, m.B, m.Tr, m.Inv, m.File)
		}
		if r.Height != b.height || r.Txs != uint32(b.txs) || r.Olen != uint32(len(b.raw)) {
			return fmt.Sprintf("index record %d of block %d: height/olen/txs = %d/%d/%d, stored %d/%d/%d", i, r.B, r.Height, r.Olen, r.Txs, b.height, len(b.raw), b.txs)
		}
		if !s.w.o.Compress {
			if r.Pos != uint64(m.Pos*s.w.o.Unit) || r.Len != uint32(m.Len*s.w.o.Unit) || r.Compr {
				return fmt.Sprintf("index record %d of block %d: pos/len = %d/%d, model predicts %d/%d", i, r.B, r.Pos, r.Len, m.Pos*s.w.o.Unit, m.Len*s.w.o.Unit)
			}
		} else if !r.Compr || !r.Snap {
			return fmt.Sprintf("index record %d of block %d not flagged compressed", i, r.B)
		}
	}
	return ""
}

type result struct {
	N    int         `json:"n"`
	OK   bool        `json:"ok"`
	Step int         `json:"step,omitempty"`
	What string      `json:"what,omitempty"`
	Line interface{} `json:"line,omitempty"`
}

func replayOne(w *world, dir string, ln *Line) (int, string) {
	os.RemoveAll(dir)
	s := &sut{w: w, dir: dir}
	s.open()
	defer func() {
		if s.db != nil {
			func() { defer func() { recover() }(); s.db.Close() }()
		}
		os.RemoveAll(dir)
	}()
	var steps []Step
	if ln.Last != nil {
		steps = append(steps, ln.Path...)
		l := *ln.Last
		l.chk = true
		steps = append(steps, l)
	} else {
		for _, st := range ln.Steps {
			st.chk = true
			steps = append(steps, st)
		}
	}
	for i := range steps {
		obs, err := s.do(&steps[i])
		if err != "" {
			return i, err
		}
		if steps[i].chk {
			if d := s.check(&steps[i], obs); d != "" {
				return i, d
			}
		}
	}
	return -1, ""
}

func cmdReplay(args []string) {
	fs := flag.NewFlagSet("replay", flag.ExitOnError)
	in := fs.String("in", "-", "")
	optsJ := fs.String("opts", "{}", "")
	workers := fs.Int("workers", 8, "")
	dir := fs.String("dir", os.TempDir(), "")
	maxFail := fs.Int("maxfail", 20, "")
	fs.Parse(args)
	var o Opts
	if err := json.Unmarshal([]byte(*optsJ), &o); err != nil {
		fmt.Fprintln(os.Stderr, "bad opts:", err)
		os.Exit(2)
	}
	w := newWorld(o)
	out := vio.NewOut()
	jobs := make(chan []byte, 1024)
	var nLines, nSteps, nFail int64
	done := make(chan struct{})
	go func() {
		vio.Pool(*workers, jobs, func(wk int, raw []byte) {
			var ln Line
			n := atomic.AddInt64(&nLines, 1) - 1
			if err := json.Unmarshal(raw, &ln); err != nil {
				out.Put(result{N: int(n), OK: false, What: "unparsable line: " + err.Error()})
				atomic.AddInt64(&nFail, 1000000)
				return
			}
			atomic.AddInt64(&nSteps, int64(len(ln.Path)+len(ln.Steps)))
			if ln.Last != nil {
				atomic.AddInt64(&nSteps, 1)
			}
			step, what := replayOne(w, filepath.Join(*dir, fmt.Sprintf("bs-%d", wk)), &ln)
			if what != "" {
				if atomic.AddInt64(&nFail, 1) <= int64(*maxFail) {
					out.Put(result{N: int(n), OK: false, Step: step, What: what, Line: json.RawMessage(raw)})
				}
			}
		})
		close(done)
	}()
	err := vio.ReadLines(*in, func(n int, line []byte) error {
		jobs <- append([]byte(nil), line...)
		return nil
	})
	close(jobs)
	<-done
	if err != nil {
		fmt.Fprintln(os.Stderr, "read:", err)
		os.Exit(2)
	}
	out.Put(map[string]interface{}{"summary": true, "lines": nLines, "steps": nSteps, "fail": nFail})
	out.Flush()
}

// ---------------------------------------------------------------- recording driver (R->V)

func cmdRecord(args []string) {
	fs := flag.NewFlagSet("record", flag.ExitOnError)
	outF := fs.String("out", "trace.ndjson", "")
	optsJ := fs.String("opts", "{}", "")
	seed := fs.Int64("seed", 1, "")
	traces := fs.Int("traces", 10, "")
	ops := fs.Int("ops", 40, "")
	dir := fs.String("dir", os.TempDir(), "")
	fs.Parse(args)
	var o Opts
	if err := json.Unmarshal([]byte(*optsJ), &o); err != nil {
		fmt.Fprintln(os.Stderr, "bad opts:", err)
		os.Exit(2)
	}
	w := newWorld(o)
	var ids []int
	for id := range w.blocks {
		ids = append(ids, id)
	}
	sort.Ints(ids)
	f, err := os.Create(*outF)
	if err != nil {
		fmt.Fprintln(os.Stderr, err)
		os.Exit(2)
	}
	defer f.Close()
	enc := json.NewEncoder(f)
	rnd := rand.New(rand.NewSource(*seed))
	nEv := 0
	emit := func(ev string, st *Step, s *sut, obs map[string]interface{}) {
		m := map[string]interface{}{"ev": ev, "b": st.B, "tr": st.Tr, "res": "", "walk": []WalkEnt{}}
		if r, ok := obs["res"]; ok {
			m["res"] = r
		}
		if ev == "Reopen" {
			wk := []WalkEnt{}
			for _, x := range s.walk {
				wk = append(wk, WalkEnt{B: x.B, Tr: x.Tr})
			}
			m["walk"] = wk
		}
		recs, trailing := s.readIndex()
		idx := []IdxRec{}
		for _, r := range recs {
			ir := IdxRec{B: r.B, Tr: r.Tr, Inv: r.Inv, File: r.File}
			if !o.Compress {
				ir.Pos, ir.Len = int(r.Pos)/o.Unit, int(r.Len)/o.Unit
			}
			idx = append(idx, ir)
		}
		m["idx"] = idx
		m["trailing"] = trailing
		enc.Encode(m)
		nEv++
	}
	for t := 0; t < *traces; t++ {
		d := filepath.Join(*dir, "bsrec")
		os.RemoveAll(d)
		s := &sut{w: w, dir: d}
		s.open()
		enc.Encode(map[string]interface{}{"ev": "Reset", "b": 0, "tr": false, "res": "", "walk": []WalkEnt{}, "idx": []IdxRec{}, "trailing": 0})
		nEv++
		open := true
		trusted := map[int]bool{}
		inIndex := map[int]bool{}
		nrecs := 0
		for i := 0; i < *ops; i++ {
			st := Step{B: ids[rnd.Intn(len(ids))]}
			if !open {
				st.A, st.B = "Reopen", 0
			} else {
				switch k := rnd.Intn(100); {
				case k < 30:
					st.A, st.Tr = "Add", rnd.Intn(4) == 0
					if nrecs >= 2*len(ids) {
						st.A = "Get"
					}
				case k < 42:
					st.A, st.B = "WriteOne", 0
				case k < 50:
					st.A, st.B = "Idle", 0
				case k < 62:
					st.A = "Invalid"
					if trusted[st.B] || !inIndex[st.B] {
						st.A = "Get"
					}
				case k < 70:
					st.A = "Trusted"
					if !inIndex[st.B] {
						st.A = "Get"
					}
				case k < 90:
					st.A = "Get"
				default:
					st.A, st.B = "Close", 0
				}
			}
			wasWritten := false
			if st.A == "Invalid" {
				recs, _ := s.readIndex()
				for _, r := range recs {
					if r.B == st.B && !r.Inv {
						wasWritten = true
					}
				}
			}
			obs, e := s.do(&st)
			if e != "" {
				enc.Encode(map[string]interface{}{"ev": "Panic", "b": st.B, "tr": false, "res": e, "walk": []WalkEnt{}, "idx": []IdxRec{}, "trailing": 0})
				nEv++
				break
			}
			switch st.A {
			case "Add":
				if !inIndex[st.B] {
					nrecs++
					inIndex[st.B] = true
					trusted[st.B] = st.Tr
				} else if st.Tr {
					trusted[st.B] = true
				}
			case "Trusted":
				trusted[st.B] = true
			case "Invalid":
				// written: stays in the in-memory index flagged trusted; queued: forgotten. Ask the store.
				inIndex[st.B] = wasWritten
				trusted[st.B] = wasWritten
			case "Close":
				open = false
			case "Reopen":
				open = true
				inIndex, trusted = map[int]bool{}, map[int]bool{}
				for _, x := range s.walk {
					inIndex[x.B] = true
					trusted[x.B] = x.Tr
				}
			}
			emit(st.A, &st, s, obs)
		}
		if s.db != nil {
			s.db.Close()
		}
		os.RemoveAll(d)
	}
	fmt.Printf("{\"events\":%d,\"traces\":%d}\n", nEv, *traces)
}

func main() {
	if len(os.Args) < 2 {
		fmt.Fprintln(os.Stderr, "usage: blockstore replay|record ...")
		os.Exit(2)
	}
	switch os.Args[1] {
	case "replay":
		cmdReplay(os.Args[2:])
	case "record":
		cmdRecord(os.Args[2:])
	default:
		os.Exit(2)
	}
}
