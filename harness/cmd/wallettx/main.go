// wallettx: conformance driver binding spec/WalletTx.tla to the real `wallet` binary (built from
// <repo>/wallet by the check on every run).
//
//	wallettx replay -in <lines> -wallet <binary> -dir <scratch> -salt N -workers N [-keep]
//
// Every input line is one TLC-exported case (WalletTxGen.Payload): wallet configuration, ordered
// unspent list, request, and the model's prediction.  For each case the driver
//   - asks the wallet itself for its keys (`wallet -l -atype pks|p2kh|segwit|bech32|tap`, cached per
//     wallet identity) and builds previous transactions whose outputs really pay to them
//     (balance/<txid>.tx, balance/unspent.txt); foreign outputs pay to random hashes,
//   - runs `wallet -send/-batch ... -fee ...` (or `-raw`), with prompts disabled,
//   - parses whatever file the run produced with its own parser and compares inputs, outputs, amounts,
//     sequence, lock time and version with the prediction; on a predicted refusal it requires that no
//     file was created or changed,
//   - verifies EVERY input twice: with script.VerifyTxScript under STANDARD_VERIFY_FLAGS (gocoin's
//     interpreter: consensus + standardness), and independently with harness/ref (math/big
//     secp256k1, BIP340) over digests computed here from the BIP143 / BIP341 / legacy definitions,
//   - for two-step cases runs a second send over the balance folder as the wallet rewrote it.
//
// Output: one JSON line per failure {"ok":false,"sig":..,"what":..,"line":..,...}, then a summary line.
package main

import (
	"bytes"
	"context"
	"crypto/sha256"
	"encoding/binary"
	"encoding/hex"
	"encoding/json"
	"errors"
	"flag"
	"fmt"
	"math/big"
	"os"
	"os/exec"
	"path/filepath"
	"sort"
	"strings"
	"sync"
	"sync/atomic"
	"time"

	"github.com/piotrnar/gocoin/lib/btc"
	"github.com/piotrnar/gocoin/lib/others/ripemd160"
	"github.com/piotrnar/gocoin/lib/script"

	"verifharness/ref"
	"verifharness/vio"
)

// ---------------------------------------------------------------- exported case format

type Amt struct {
	H int64 `json:"h"`
	U int64 `json:"u"`
	E int64 `json:"e"`
}

// Sat: an amount of spec/Amt.tla is three base-10^8 digits, h*10^16 + u*10^8 + e satoshi
func (a Amt) Sat() uint64 { return uint64(a.H)*10000000000000000 + uint64(a.U*100000000+a.E) }

// BTC is the amount as a decimal string of coins, straight from the three base-10^8 digits (it may exceed 2^64 satoshi)
func (a Amt) BTC() string { return fmt.Sprintf("%d.%08d", a.H*100000000+a.U, a.E) }

// Big is the amount in satoshi, unbounded
func (a Amt) Big() *big.Int {
	v := new(big.Int).Mul(big.NewInt(a.H), big.NewInt(100000000))
	v.Add(v, big.NewInt(a.U))
	v.Mul(v, big.NewInt(100000000))
	return v.Add(v, big.NewInt(a.E))
}

type Unsp struct {
	T   int    `json:"t"`
	V   int    `json:"v"`
	Amt Amt    `json:"amt"`
	St  string `json:"st"`
}

type Dest struct {
	Dt  string `json:"dt"`
	Req Amt    `json:"req"`
	Pay Amt    `json:"pay"`
}

type Opts struct {
	Fee    string `json:"fee"`
	Seqc   string `json:"seqc"`
	Lt     string `json:"lt"`
	Ver    string `json:"ver"`
	Change string `json:"change"`
	Msg    string `json:"msg"`
	Mode   string `json:"mode"`
	Useall bool   `json:"useall"`
	Subfee bool   `json:"subfee"`
	Sig    string `json:"sig"`
}

type Out struct {
	K   string `json:"k"`
	I   int    `json:"i"`
	Amt Amt    `json:"amt"`
}

type Res struct {
	Written bool   `json:"written"`
	Ins     []int  `json:"ins"`
	Outs    []Out  `json:"outs"`
	Seqc    string `json:"seqc"`
	Lt      string `json:"lt"`
	Ver     string `json:"ver"`
	Why     string `json:"why"`
}

type RawIn struct {
	U  int    `json:"u"`
	Sq string `json:"sq"`
}

type RawOut struct {
	Dt  string `json:"dt"`
	Amt Amt    `json:"amt"`
}

type Raw struct {
	Ins    []RawIn  `json:"ins"`
	Outs   []RawOut `json:"outs"`
	Ver    string   `json:"ver"`
	Lt     string   `json:"lt"`
	Signed []bool   `json:"signed"`
	Shape  string   `json:"shape"`
}

type ArgWant struct {
	Arg  string `json:"arg"`
	Want string `json:"want"`
}

type Case struct {
	Phase string `json:"phase"`
	Cfg   struct {
		Wt      int    `json:"wt"`
		Atype   string `json:"atype"`
		Testnet bool   `json:"testnet"`
	} `json:"cfg"`
	Unsp  []Unsp `json:"unsp"`
	Dests []Dest `json:"dests"`
	Opts  Opts   `json:"opts"`
	Fee   struct {
		Cls string `json:"cls"`
		Amt Amt    `json:"amt"`
	} `json:"fee"`
	Msg struct {
		Cls  string `json:"cls"`
		Len  int    `json:"len"`
		Push string `json:"push"`
	} `json:"msg"`
	Seqc       ArgWant `json:"seqc"`
	Lt         ArgWant `json:"lt"`
	Ver        ArgWant `json:"ver"`
	Subapplies bool    `json:"subapplies"`
	Need       Amt     `json:"need"`
	Funds      Amt     `json:"funds"`
	Owned      []bool  `json:"owned"`
	Res        Res     `json:"res"`
	Raw        Raw     `json:"raw"`
	Rres       Raw     `json:"rres"`
	Unsp2      []Unsp  `json:"unsp2"`
	Res2       Res     `json:"res2"`
	Changetype string  `json:"changetype"`
}

// ---------------------------------------------------------------- small helpers (own code, no gocoin)

func sha256d(b []byte) []byte {
	a := sha256.Sum256(b)
	c := sha256.Sum256(a[:])
	return c[:]
}

func hash160(b []byte) []byte {
	a := sha256.Sum256(b)
	r := ripemd160.New() // RIPEMD-160 is not in the standard library: gocoin's copy is in the trusted base (DESIGN 2.3)
	r.Write(a[:])
	return r.Sum(nil)
}

const b58abc = "123456789ABCDEFGHJKLMNPQRSTUVWXYZabcdefghijkmnopqrstuvwxyz"

func b58enc(b []byte) string {
	x := new(big.Int).SetBytes(b)
	r := new(big.Int)
	k := big.NewInt(58)
	var out []byte
	for x.Sign() > 0 {
		x.DivMod(x, k, r)
		out = append(out, b58abc[r.Int64()])
	}
	for _, c := range b {
		if c != 0 {
			break
		}
		out = append(out, '1')
	}
	for i, j := 0, len(out)-1; i < j; i, j = i+1, j-1 {
		out[i], out[j] = out[j], out[i]
	}
	return string(out)
}

func b58check(payload []byte) string {
	return b58enc(append(append([]byte{}, payload...), sha256d(payload)[:4]...))
}

func push(b []byte) []byte {
	if len(b) < 0x4c {
		return append([]byte{byte(len(b))}, b...)
	}
	if len(b) <= 0xff {
		return append([]byte{0x4c, byte(len(b))}, b...)
	}
	return append([]byte{0x4d, byte(len(b)), byte(len(b) >> 8)}, b...)
}

func p2pkh(h []byte) []byte { return append(append([]byte{0x76, 0xa9, 0x14}, h...), 0x88, 0xac) }
func p2sh(h []byte) []byte  { return append(append([]byte{0xa9, 0x14}, h...), 0x87) }
func wprog(ver byte, p []byte) []byte {
	op := ver
	if ver > 0 {
		op = 0x50 + ver
	}
	return append([]byte{op, byte(len(p))}, p...)
}

func varint(n uint64) []byte {
	switch {
	case n < 0xfd:
		return []byte{byte(n)}
	case n <= 0xffff:
		return []byte{0xfd, byte(n), byte(n >> 8)}
	case n <= 0xffffffff:
		b := make([]byte, 5)
		b[0] = 0xfe
		binary.LittleEndian.PutUint32(b[1:], uint32(n))
		return b
	}
	b := make([]byte, 9)
	b[0] = 0xff
	binary.LittleEndian.PutUint64(b[1:], n)
	return b
}

func le32(v uint32) []byte { b := make([]byte, 4); binary.LittleEndian.PutUint32(b, v); return b }
func le64(v uint64) []byte { b := make([]byte, 8); binary.LittleEndian.PutUint64(b, v); return b }

func hexu32(s string) uint32 {
	b, err := hex.DecodeString(s)
	if err != nil || len(b) != 4 {
		panic("bad u32 class " + s)
	}
	return binary.BigEndian.Uint32(b)
}

// deterministic pseudo-random bytes from the salt and a label
func prb(n int, parts ...interface{}) []byte {
	var out []byte
	for i := 0; len(out) < n; i++ {
		h := sha256.Sum256([]byte(fmt.Sprint(append(parts, i)...)))
		out = append(out, h[:]...)
	}
	return out[:n]
}

func prn(mod int, parts ...interface{}) int {
	b := prb(4, parts...)
	return int(binary.BigEndian.Uint32(b) % uint32(mod))
}

// ---------------------------------------------------------------- own transaction parser / serialiser

type PIn struct {
	Hash [32]byte
	Vout uint32
	Sig  []byte
	Seq  uint32
	Wit  [][]byte
}

type POut struct {
	Value  uint64
	Script []byte
}

type PTx struct {
	Version  uint32
	In       []PIn
	Out      []POut
	LockTime uint32
	HasWit   bool
}

type rd struct {
	b   []byte
	pos int
	err error
}

func (r *rd) take(n int) []byte {
	if r.err != nil {
		return nil
	}
	if n < 0 || r.pos+n > len(r.b) {
		r.err = errors.New("truncated")
		return nil
	}
	v := r.b[r.pos : r.pos+n]
	r.pos += n
	return v
}
func (r *rd) u8() byte {
	v := r.take(1)
	if v == nil {
		return 0
	}
	return v[0]
}
func (r *rd) u32() uint32 {
	v := r.take(4)
	if v == nil {
		return 0
	}
	return binary.LittleEndian.Uint32(v)
}
func (r *rd) u64() uint64 {
	v := r.take(8)
	if v == nil {
		return 0
	}
	return binary.LittleEndian.Uint64(v)
}
func (r *rd) vi() uint64 {
	c := r.u8()
	switch c {
	case 0xfd:
		v := r.take(2)
		if v == nil {
			return 0
		}
		return uint64(binary.LittleEndian.Uint16(v))
	case 0xfe:
		return uint64(r.u32())
	case 0xff:
		return r.u64()
	}
	return uint64(c)
}

func parseTx(b []byte) (*PTx, error) {
	r := &rd{b: b}
	t := &PTx{}
	t.Version = r.u32()
	n := r.vi()
	if n == 0 && r.err == nil {
		if r.u8() != 1 {
			return nil, errors.New("bad segwit flag")
		}
		t.HasWit = true
		n = r.vi()
	}
	if n > 100000 {
		return nil, errors.New("too many inputs")
	}
	for i := uint64(0); i < n && r.err == nil; i++ {
		var in PIn
		copy(in.Hash[:], r.take(32))
		in.Vout = r.u32()
		in.Sig = append([]byte{}, r.take(int(r.vi()))...)
		in.Seq = r.u32()
		t.In = append(t.In, in)
	}
	m := r.vi()
	if m > 100000 {
		return nil, errors.New("too many outputs")
	}
	for i := uint64(0); i < m && r.err == nil; i++ {
		var o POut
		o.Value = r.u64()
		o.Script = append([]byte{}, r.take(int(r.vi()))...)
		t.Out = append(t.Out, o)
	}
	if t.HasWit {
		for i := range t.In {
			k := r.vi()
			if k > 1000 {
				return nil, errors.New("witness too big")
			}
			for j := uint64(0); j < k && r.err == nil; j++ {
				t.In[i].Wit = append(t.In[i].Wit, append([]byte{}, r.take(int(r.vi()))...))
			}
		}
	}
	t.LockTime = r.u32()
	if r.err != nil {
		return nil, r.err
	}
	if r.pos != len(b) {
		return nil, fmt.Errorf("%d trailing bytes", len(b)-r.pos)
	}
	return t, nil
}

func (t *PTx) serialize(witness bool) []byte {
	var w bytes.Buffer
	w.Write(le32(t.Version))
	if witness {
		w.Write([]byte{0, 1})
	}
	w.Write(varint(uint64(len(t.In))))
	for _, in := range t.In {
		w.Write(in.Hash[:])
		w.Write(le32(in.Vout))
		w.Write(varint(uint64(len(in.Sig))))
		w.Write(in.Sig)
		w.Write(le32(in.Seq))
	}
	w.Write(varint(uint64(len(t.Out))))
	for _, o := range t.Out {
		w.Write(le64(o.Value))
		w.Write(varint(uint64(len(o.Script))))
		w.Write(o.Script)
	}
	if witness {
		for _, in := range t.In {
			w.Write(varint(uint64(len(in.Wit))))
			for _, it := range in.Wit {
				w.Write(varint(uint64(len(it))))
				w.Write(it)
			}
		}
	}
	w.Write(le32(t.LockTime))
	return w.Bytes()
}

func (t *PTx) txid() [32]byte {
	var h [32]byte
	copy(h[:], sha256d(t.serialize(false)))
	return h
}

func txidString(h [32]byte) string {
	var r [32]byte
	for i := range h {
		r[i] = h[31-i]
	}
	return hex.EncodeToString(r[:])
}

// ---- signature digests, written from the definitions (SIGHASH_ALL / SIGHASH_DEFAULT only: what a wallet produces)

func legacyDigestAll(t *PTx, idx int, scriptCode []byte) []byte {
	var w bytes.Buffer
	w.Write(le32(t.Version))
	w.Write(varint(uint64(len(t.In))))
	for i, in := range t.In {
		w.Write(in.Hash[:])
		w.Write(le32(in.Vout))
		if i == idx {
			w.Write(varint(uint64(len(scriptCode))))
			w.Write(scriptCode)
		} else {
			w.WriteByte(0)
		}
		w.Write(le32(in.Seq))
	}
	w.Write(varint(uint64(len(t.Out))))
	for _, o := range t.Out {
		w.Write(le64(o.Value))
		w.Write(varint(uint64(len(o.Script))))
		w.Write(o.Script)
	}
	w.Write(le32(t.LockTime))
	w.Write(le32(1))
	return sha256d(w.Bytes())
}

func bip143DigestAll(t *PTx, idx int, scriptCode []byte, amount uint64) []byte {
	var po, sq, ou bytes.Buffer
	for _, in := range t.In {
		po.Write(in.Hash[:])
		po.Write(le32(in.Vout))
		sq.Write(le32(in.Seq))
	}
	for _, o := range t.Out {
		ou.Write(le64(o.Value))
		ou.Write(varint(uint64(len(o.Script))))
		ou.Write(o.Script)
	}
	var w bytes.Buffer
	w.Write(le32(t.Version))
	w.Write(sha256d(po.Bytes()))
	w.Write(sha256d(sq.Bytes()))
	w.Write(t.In[idx].Hash[:])
	w.Write(le32(t.In[idx].Vout))
	w.Write(varint(uint64(len(scriptCode))))
	w.Write(scriptCode)
	w.Write(le64(amount))
	w.Write(le32(t.In[idx].Seq))
	w.Write(sha256d(ou.Bytes()))
	w.Write(le32(t.LockTime))
	w.Write(le32(1))
	return sha256d(w.Bytes())
}

// BIP341 "Common signature message", key path, hash_type 0x00 (SIGHASH_DEFAULT), no annex
func bip341DigestDefault(t *PTx, idx int, prev []POut) []byte {
	s := func(b []byte) []byte { h := sha256.Sum256(b); return h[:] }
	var po, am, sp, sq, ou bytes.Buffer
	for i, in := range t.In {
		po.Write(in.Hash[:])
		po.Write(le32(in.Vout))
		am.Write(le64(prev[i].Value))
		sp.Write(varint(uint64(len(prev[i].Script))))
		sp.Write(prev[i].Script)
		sq.Write(le32(in.Seq))
	}
	for _, o := range t.Out {
		ou.Write(le64(o.Value))
		ou.Write(varint(uint64(len(o.Script))))
		ou.Write(o.Script)
	}
	var w bytes.Buffer
	w.WriteByte(0) // epoch
	w.WriteByte(0) // hash_type
	w.Write(le32(t.Version))
	w.Write(le32(t.LockTime))
	w.Write(s(po.Bytes()))
	w.Write(s(am.Bytes()))
	w.Write(s(sp.Bytes()))
	w.Write(s(sq.Bytes()))
	w.Write(s(ou.Bytes()))
	w.WriteByte(0) // spend_type: ext_flag 0, no annex
	w.Write(le32(uint32(idx)))
	return ref.TaggedHash("TapSighash", w.Bytes())
}

// parse a script made of data pushes only
func pushes(scr []byte) ([][]byte, bool) {
	var out [][]byte
	for i := 0; i < len(scr); {
		op := int(scr[i])
		i++
		n := 0
		switch {
		case op == 0:
			out = append(out, []byte{})
			continue
		case op < 0x4c:
			n = op
		case op == 0x4c:
			if i+1 > len(scr) {
				return nil, false
			}
			n = int(scr[i])
			i++
		case op == 0x4d:
			if i+2 > len(scr) {
				return nil, false
			}
			n = int(scr[i]) | int(scr[i+1])<<8
			i += 2
		default:
			return nil, false
		}
		if i+n > len(scr) {
			return nil, false
		}
		out = append(out, scr[i:i+n])
		i += n
	}
	return out, true
}

var halfN = new(big.Int).Rsh(ref.N, 1)

func ecdsaOK(sigWithType, pub, digest []byte) string {
	if len(sigWithType) < 9 || sigWithType[len(sigWithType)-1] != 1 {
		return "signature does not end with SIGHASH_ALL"
	}
	sg, ok := ref.ParseDERStrict(sigWithType[:len(sigWithType)-1])
	if !ok {
		return "signature is not strict DER"
	}
	if sg.S.Cmp(halfN) > 0 {
		return "high S"
	}
	q, ok := ref.ParsePubKey(pub)
	if !ok || (pub[0] != 2 && pub[0] != 3 && pub[0] != 4) {
		return "public key does not parse"
	}
	if !ref.EcdsaVerify(q, digest, sg) {
		return "ECDSA equation does not hold for the digest of this input"
	}
	return ""
}

// independent judgement of one input ("" = valid under consensus and standardness for its script type)
func refVerify(t *PTx, idx int, prev []POut) string {
	in := t.In[idx]
	scr := prev[idx].Script
	amount := prev[idx].Value
	witnessPKH := func(prog []byte) string {
		if len(in.Wit) != 2 {
			return fmt.Sprintf("witness has %d items, want 2", len(in.Wit))
		}
		pub := in.Wit[1]
		if len(pub) != 33 {
			return "witness public key is not compressed"
		}
		if !bytes.Equal(hash160(pub), prog) {
			return "witness public key does not hash to the program"
		}
		return ecdsaOK(in.Wit[0], pub, bip143DigestAll(t, idx, p2pkh(prog), amount))
	}
	switch {
	case len(scr) == 25 && scr[0] == 0x76 && scr[1] == 0xa9 && scr[2] == 0x14 && scr[23] == 0x88 && scr[24] == 0xac:
		if len(in.Wit) != 0 {
			return "unexpected witness on a P2PKH input"
		}
		ps, ok := pushes(in.Sig)
		if !ok || len(ps) != 2 {
			return "scriptSig is not <sig> <pubkey>"
		}
		if !bytes.Equal(hash160(ps[1]), scr[3:23]) {
			return "public key does not hash to the output's hash"
		}
		return ecdsaOK(ps[0], ps[1], legacyDigestAll(t, idx, scr))
	case len(scr) == 22 && scr[0] == 0 && scr[1] == 20:
		if len(in.Sig) != 0 {
			return "scriptSig of a native witness input is not empty"
		}
		return witnessPKH(scr[2:])
	case len(scr) == 23 && scr[0] == 0xa9 && scr[1] == 0x14 && scr[22] == 0x87:
		ps, ok := pushes(in.Sig)
		if !ok || len(ps) == 0 {
			return "scriptSig is not push-only"
		}
		rs := ps[len(ps)-1]
		if !bytes.Equal(hash160(rs), scr[2:22]) {
			return "redeem script does not hash to the output's hash"
		}
		if n := len(rs); n >= 3 && rs[n-1] == 0xae && !(n == 22 && rs[0] == 0 && rs[1] == 20) { // (a P2WPKH program may end in 0xae too)
			return multisigOK(t, idx, in, ps[:len(ps)-1], rs)
		}
		if len(ps) != 1 || len(in.Sig) != 23 {
			return "scriptSig is not exactly one push of the redeem script"
		}
		if len(rs) != 22 || rs[0] != 0 || rs[1] != 20 {
			return "redeem script is not a P2WPKH program"
		}
		return witnessPKH(rs[2:])
	case len(scr) == 34 && scr[0] == 0x51 && scr[1] == 32:
		if len(in.Sig) != 0 {
			return "scriptSig of a taproot input is not empty"
		}
		if len(in.Wit) != 1 || len(in.Wit[0]) != 64 {
			return "taproot witness is not one 64-byte signature"
		}
		if !ref.SchnorrVerify(scr[2:], bip341DigestDefault(t, idx, prev), in.Wit[0]) {
			return "BIP340 verification fails for the BIP341 digest of this input"
		}
		return ""
	}
	return "unknown script type"
}

// bare m-of-n CHECKMULTISIG behind P2SH: OP_0 <sig>*m, signatures in key order, legacy digest over the redeem script
func multisigOK(t *PTx, idx int, in PIn, args [][]byte, rs []byte) string {
	if len(in.Wit) != 0 {
		return "unexpected witness on a P2SH multisig input"
	}
	m, n := int(rs[0])-0x50, int(rs[len(rs)-2])-0x50
	keys, ok := pushes(rs[1 : len(rs)-2])
	if !ok || m < 1 || n < m || n > 16 || len(keys) != n {
		return "redeem script is not m-of-n CHECKMULTISIG"
	}
	if len(args) != m+1 || len(args[0]) != 0 {
		return fmt.Sprintf("scriptSig carries %d items before the redeem script, want OP_0 and %d signatures", len(args), m)
	}
	digest := legacyDigestAll(t, idx, rs)
	ki := 0
	for si, sg := range args[1:] {
		found := false
		for ; ki < n && !found; ki++ {
			found = ecdsaOK(sg, keys[ki], digest) == ""
		}
		if !found {
			return fmt.Sprintf("signature %d matches none of the remaining keys (in order)", si)
		}
	}
	return ""
}

// gocoin's interpreter under the standard flags
func scriptVerify(rawtx []byte, idx int, prev []POut) (ok bool, perr string) {
	defer func() {
		if r := recover(); r != nil {
			ok, perr = false, fmt.Sprint("panic: ", r)
		}
	}()
	tx, n := btc.NewTx(rawtx)
	if tx == nil || n != len(rawtx) {
		return false, "btc.NewTx cannot parse the transaction"
	}
	tx.SetHash(rawtx)
	tx.AllocVerVars()
	tx.Spent_outputs = make([]*btc.TxOut, len(prev))
	for i := range prev {
		tx.Spent_outputs[i] = &btc.TxOut{Value: prev[i].Value, Pk_script: prev[i].Script}
	}
	return script.VerifyTxScript(prev[idx].Script, &script.SigChecker{Amount: prev[idx].Value, Idx: idx, Tx: tx}, script.STANDARD_VERIFY_FLAGS), ""
}

// ---------------------------------------------------------------- the wallet under test

type runRes struct {
	Cmd    []string
	Stdout string
	Stderr string
	Code   int
}

var walletBin string
var runs int64

var hangsSeen int64

const hangTimeout = 20 * time.Second

func runWallet(dir string, stdin string, args ...string) (*runRes, error) {
	return runWalletT(dir, stdin, 180*time.Second, args...)
}

func runWalletT(dir string, stdin string, limit time.Duration, args ...string) (*runRes, error) {
	atomic.AddInt64(&runs, 1)
	ctx, cancel := context.WithTimeout(context.Background(), limit)
	defer cancel()
	cmd := exec.CommandContext(ctx, walletBin, args...)
	cmd.Dir = dir
	cmd.Env = []string{"HOME=" + dir, "PATH=/usr/bin:/bin"}
	cmd.Stdin = strings.NewReader(stdin)
	var so, se bytes.Buffer
	cmd.Stdout, cmd.Stderr = &so, &se
	err := cmd.Run()
	r := &runRes{Cmd: append([]string{"wallet"}, args...), Stdout: so.String(), Stderr: se.String()}
	if ctx.Err() != nil {
		return r, errors.New("wallet timed out: " + strings.Join(args, " "))
	}
	if err != nil {
		if ee, ok := err.(*exec.ExitError); ok {
			r.Code = ee.ExitCode()
			return r, nil
		}
		return r, err
	}
	return r, nil
}

// Identity of a wallet: what determines its key list.
type Ident struct {
	Wt      int
	Testnet bool
	Pw      int  // password variant
	Imp     bool // with two imported keys in .others (compressed, uncompressed)
}

type Wal struct {
	id    Ident
	pass  string
	seed  string // optional "seed=" line of wallet.cfg
	cfg   string // wallet.cfg body common to every run of this identity
	other string // .others content
	nimp  int
	pubs  [][]byte            // public keys in listing order
	addr  map[string][]string // atype -> listed address per key
	err   error
	once  sync.Once
}

const KeyCnt = 5

var (
	wals   = map[Ident]*Wal{}
	walsMu sync.Mutex
	salt   int
	base   string
)

func wifOf(priv []byte, testnet, compressed bool) string {
	p := []byte{0x80}
	if testnet {
		p[0] = 0xef
	}
	p = append(p, priv...)
	if compressed {
		p = append(p, 1)
	}
	return b58check(p)
}

func (w *Wal) prepare(dir string) error {
	if err := os.MkdirAll(dir, 0o700); err != nil {
		return err
	}
	if err := os.WriteFile(filepath.Join(dir, "wallet.cfg"), []byte(w.cfg), 0o600); err != nil {
		return err
	}
	if err := os.WriteFile(filepath.Join(dir, ".secret"), []byte(w.pass), 0o600); err != nil {
		return err
	}
	if w.other != "" {
		if err := os.WriteFile(filepath.Join(dir, ".others"), []byte(w.other), 0o600); err != nil {
			return err
		}
	}
	return nil
}

func getWal(id Ident) *Wal {
	walsMu.Lock()
	w := wals[id]
	if w == nil {
		w = &Wal{id: id, addr: map[string][]string{}}
		wals[id] = w
	}
	walsMu.Unlock()
	w.once.Do(func() { w.err = w.build() })
	return w
}

func (w *Wal) build() error {
	id := w.id
	w.pass = []string{"qwerty12345", "correct horse battery staple", "P@ss w0rd/with=odd,chars"}[id.Pw%3] + fmt.Sprint("-", salt)
	var c strings.Builder
	fmt.Fprintf(&c, "# C13 scratch wallet\ntype=%d\nkeycnt=%d\n", id.Wt, KeyCnt)
	if id.Wt == 4 {
		fmt.Fprintf(&c, "hdpath=%s\n", []string{"m/0'", "m/84'/0'/0'/0/0", "m/0/3"}[id.Pw%3])
		if id.Pw%3 == 1 {
			c.WriteString("bip39=12\n")
		}
	}
	if id.Testnet {
		c.WriteString("testnet=true\n")
	}
	if id.Pw%2 == 1 {
		w.seed = "s33d"
		c.WriteString("seed=" + w.seed + "\n")
	}
	w.cfg = c.String()
	if id.Imp {
		w.other = wifOf(prb(32, "impc", salt, id), id.Testnet, true) + " imported one\n" +
			wifOf(prb(32, "impu", salt, id), id.Testnet, false) + "\n"
		w.nimp = 2
	}
	dir := filepath.Join(base, fmt.Sprintf("wal-%d-%v-%d-%v", id.Wt, id.Testnet, id.Pw, id.Imp))
	if err := w.prepare(dir); err != nil {
		return err
	}
	for _, at := range []string{"pks", "p2kh", "segwit", "bech32", "tap"} {
		r, err := runWallet(dir, "", "-l", "-atype", at)
		if err != nil {
			return err
		}
		if r.Code != 0 {
			return fmt.Errorf("wallet -l -atype %s exit %d: %s %s", at, r.Code, r.Stdout, r.Stderr)
		}
		b, err := os.ReadFile(filepath.Join(dir, "wallet.txt"))
		if err != nil {
			return err
		}
		var col []string
		for _, ln := range strings.Split(string(b), "\n") {
			ln = strings.TrimSpace(ln)
			if ln == "" || ln[0] == '#' {
				continue
			}
			col = append(col, strings.SplitN(ln, " ", 2)[0])
		}
		if len(col) != KeyCnt+w.nimp {
			return fmt.Errorf("wallet -l -atype %s listed %d keys, want %d", at, len(col), KeyCnt+w.nimp)
		}
		if at == "pks" {
			for _, h := range col {
				pk, err := hex.DecodeString(h)
				if err != nil || (len(pk) != 33 && len(pk) != 65) {
					return fmt.Errorf("wallet -l -atype pks: bad public key %q", h)
				}
				w.pubs = append(w.pubs, pk)
			}
		} else {
			w.addr[at] = col
		}
	}
	return nil
}

// script of key k in the form st
func (w *Wal) scriptOf(st string, k int) []byte {
	pub := w.pubs[k]
	h := hash160(pub)
	switch st {
	case "P2PKH", "IMPC", "IMPU":
		return p2pkh(h)
	case "P2WPKH":
		return wprog(0, h)
	case "P2SH":
		return p2sh(hash160(wprog(0, h)))
	case "P2TR":
		return wprog(1, pub[1:33]) // the wallet's taproot address commits to the bare x coordinate of the key (wallet.go:385)
	}
	panic("scriptOf " + st)
}

func listTypeOf(atype string) string {
	return map[string]string{"p2kh": "P2PKH", "segwit": "P2SH", "bech32": "P2WPKH", "tap": "P2TR"}[atype]
}

// ---------------------------------------------------------------- concretisation of a case

type conc struct {
	c      *Case
	line   int
	w      *Wal
	dir    string
	ukey   []int        // key index per unspent line (-1: foreign)
	uscr   [][]byte     // script per unspent line
	uredm  [][]byte     // redeem script per unspent line (multisig outputs only)
	uop    [][36]byte   // outpoint per unspent line: txid(32, internal order) | vout
	utx    map[int]*PTx // previous transaction by model number
	prevs  map[[36]byte]POut
	dscr   [][]byte // expected script per destination
	daddr  []string
	chScr  []byte // expected change script ("" when the default applies: first owned line)
	chAdr  string
	msg    string
	ownK   int
	chgK   int
	log    []*runRes
	failed bool
}

func opKey(h [32]byte, v uint32) (k [36]byte) {
	copy(k[:], h[:])
	binary.LittleEndian.PutUint32(k[32:], v)
	return
}

func (x *conc) foreignAddr(dt string, parts ...interface{}) (string, []byte) {
	tn := x.c.Cfg.Testnet
	switch dt {
	case "P2PKH":
		h := prb(20, append(parts, "pkh", salt)...)
		v := byte(0)
		if tn {
			v = 111
		}
		return b58check(append([]byte{v}, h...)), p2pkh(h)
	case "P2SH":
		h := prb(20, append(parts, "sh", salt)...)
		v := byte(5)
		if tn {
			v = 196
		}
		return b58check(append([]byte{v}, h...)), p2sh(h)
	case "P2WPKH":
		s := wprog(0, prb(20, append(parts, "wpkh", salt)...))
		return btc.NewAddrFromPkScript(s, tn).String(), s
	case "P2WSH":
		s := wprog(0, prb(32, append(parts, "wsh", salt)...))
		return btc.NewAddrFromPkScript(s, tn).String(), s
	case "P2TR":
		s := wprog(1, prb(32, append(parts, "tr", salt)...))
		return btc.NewAddrFromPkScript(s, tn).String(), s
	}
	panic("foreignAddr " + dt)
}

func (x *conc) setup() error {
	c := x.c
	imp := false
	for _, u := range c.Unsp {
		if u.St == "IMPC" || u.St == "IMPU" {
			imp = true
		}
	}
	x.w = getWal(Ident{Wt: c.Cfg.Wt, Testnet: c.Cfg.Testnet, Pw: (x.line + salt) % 6, Imp: imp})
	if x.w.err != nil {
		return x.w.err
	}
	w := x.w
	os.RemoveAll(x.dir)
	if err := w.prepare(x.dir); err != nil {
		return err
	}
	if err := os.MkdirAll(filepath.Join(x.dir, "balance"), 0o700); err != nil {
		return err
	}
	// keys and scripts of the unspent lines
	nt := 0
	for j, u := range c.Unsp {
		k := -1
		var scr, rs []byte
		switch u.St {
		case "IMPC":
			k = 0
			scr = w.scriptOf(u.St, k)
		case "IMPU":
			k = 1
			scr = w.scriptOf(u.St, k)
		case "FPKH":
			_, scr = x.foreignAddr("P2PKH", "unsp", x.line, j)
		case "FMS":
			_, scr = x.foreignAddr("P2SH", "unsp", x.line, j)
		case "MS22", "MS23", "MS13F", "MS23F":
			rs = x.multisig(u.St, j)
			scr = p2sh(hash160(rs))
		default:
			k = w.nimp + (j*3+salt+x.line)%KeyCnt
			scr = w.scriptOf(u.St, k)
		}
		x.ukey = append(x.ukey, k)
		x.uscr = append(x.uscr, scr)
		x.uredm = append(x.uredm, rs)
		if u.T > nt {
			nt = u.T
		}
	}
	// previous transactions
	x.utx = map[int]*PTx{}
	x.prevs = map[[36]byte]POut{}
	for t := 1; t <= nt; t++ {
		p := &PTx{Version: 1 + uint32(t%2), LockTime: 0}
		var in PIn
		copy(in.Hash[:], prb(32, "fund", salt, x.line, t))
		in.Vout = uint32(t)
		in.Sig = push(prb(8, "fundsig", t))
		in.Seq = 0xffffffff
		p.In = []PIn{in}
		maxv := -1
		for _, u := range c.Unsp {
			if u.T == t && u.V > maxv {
				maxv = u.V
			}
		}
		for v := 0; v <= maxv; v++ {
			found := false
			for j, u := range c.Unsp {
				if u.T == t && u.V == v {
					p.Out = append(p.Out, POut{Value: u.Amt.Sat(), Script: x.uscr[j]})
					found = true
				}
			}
			if !found {
				// a decoy: an output of the same transaction that is NOT listed in balance/unspent.txt.  Every other one
				// pays to a key of the wallet (so a misread index finds something it can sign for), the rest to strangers.
				d := POut{Value: 700000 + uint64(v)*1000 + uint64(prn(999, "decoyamt", salt, x.line, t, v))}
				if v%2 == 0 {
					k := w.nimp + (v/2+salt+x.line)%KeyCnt
					d.Script = w.scriptOf([]string{"P2WPKH", "P2PKH", "P2TR"}[(v/2)%3], k)
				} else {
					_, d.Script = x.foreignAddr("P2PKH", "decoy", x.line, t, v)
				}
				p.Out = append(p.Out, d)
			}
		}
		x.utx[t] = p
		id := p.txid()
		if err := os.WriteFile(filepath.Join(x.dir, "balance", txidString(id)+".tx"), p.serialize(false), 0o600); err != nil {
			return err
		}
	}
	var ul strings.Builder
	x.uop = make([][36]byte, len(c.Unsp))
	for j, u := range c.Unsp {
		p := x.utx[u.T]
		if p == nil || u.V >= len(p.Out) {
			return fmt.Errorf("line %d: unspent %d has no previous transaction", x.line, j)
		}
		id := p.txid()
		x.uop[j] = opKey(id, uint32(u.V))
		x.prevs[x.uop[j]] = p.Out[u.V]
		lbl := ""
		if (j+salt)%2 == 0 {
			lbl = fmt.Sprintf(" # %d.%08d BTC @ somewhere", u.Amt.Sat()/100000000, u.Amt.Sat()%100000000)
		}
		fmt.Fprintf(&ul, "%s-%03d%s\n", txidString(id), u.V, lbl)
	}
	if err := os.WriteFile(filepath.Join(x.dir, "balance", "unspent.txt"), []byte(ul.String()), 0o600); err != nil {
		return err
	}
	// destinations
	x.ownK = w.nimp + (salt+x.line+1)%KeyCnt
	x.chgK = w.nimp + (salt+x.line+2)%KeyCnt
	for i, d := range c.Dests {
		if d.Dt == "OWN" {
			x.daddr = append(x.daddr, w.addr[c.Cfg.Atype][x.ownK])
			x.dscr = append(x.dscr, w.scriptOf(listTypeOf(c.Cfg.Atype), x.ownK))
		} else {
			a, s := x.foreignAddr(d.Dt, "dest", x.line, i)
			x.daddr = append(x.daddr, a)
			x.dscr = append(x.dscr, s)
		}
	}
	switch c.Opts.Change {
	case "own":
		x.chAdr = w.addr[c.Cfg.Atype][x.chgK]
		x.chScr = w.scriptOf(listTypeOf(c.Cfg.Atype), x.chgK)
	case "foreign":
		x.chAdr, x.chScr = x.foreignAddr("P2PKH", "change", x.line)
	}
	if c.Msg.Len > 0 {
		x.msg = (strings.Repeat("C13 says hello ", c.Msg.Len/15+1))[:c.Msg.Len]
	}
	return nil
}

func isMS(st string) bool { return strings.HasPrefix(st, "MS") }

// m-of-n redeem script of an unspent line: own keys of the wallet, foreign keys are real points of random secrets
func (x *conc) multisig(st string, j int) []byte {
	w := x.w
	own := func(i int) []byte { return w.pubs[w.nimp+(j+i+salt+x.line)%KeyCnt] }
	foreign := func(i int) []byte {
		k := new(big.Int).SetBytes(prb(32, "mskey", salt, x.line, j, i))
		k.Mod(k, ref.N)
		return ref.SerializePubKey(ref.BaseMul(k), true)
	}
	var m int
	var keys [][]byte
	switch st {
	case "MS22":
		m, keys = 2, [][]byte{own(0), own(1)}
	case "MS23":
		m, keys = 2, [][]byte{own(0), own(1), own(2)}
	case "MS13F":
		m, keys = 1, [][]byte{foreign(0), own(0), foreign(1)}
	case "MS23F":
		m, keys = 2, [][]byte{foreign(0), own(0), foreign(1)}
	default:
		panic("multisig " + st)
	}
	rs := []byte{byte(0x50 + m)}
	for _, k := range keys {
		rs = append(rs, push(k)...)
	}
	return append(rs, byte(0x50+len(keys)), 0xae)
}

func satStr(v uint64, variant int) string {
	return trimAmt(fmt.Sprintf("%d.%08d", v/100000000, v%100000000), variant)
}

func trimAmt(s string, variant int) string {
	if variant%2 == 1 {
		s = strings.TrimRight(s, "0")
		s = strings.TrimSuffix(s, ".")
	}
	return s
}

// snapshot of every file below dir: path -> sha256
func snapshot(dir string) map[string]string {
	m := map[string]string{}
	filepath.Walk(dir, func(p string, info os.FileInfo, err error) error {
		if err != nil || info.IsDir() {
			return nil
		}
		b, _ := os.ReadFile(p)
		h := sha256.Sum256(b)
		rel, _ := filepath.Rel(dir, p)
		m[rel] = hex.EncodeToString(h[:])
		return nil
	})
	return m
}

func diffSnap(a, b map[string]string) (created, changed, removed []string) {
	for k, v := range b {
		if o, ok := a[k]; !ok {
			created = append(created, k)
		} else if o != v {
			changed = append(changed, k)
		}
	}
	for k := range a {
		if _, ok := b[k]; !ok {
			removed = append(removed, k)
		}
	}
	sort.Strings(created)
	sort.Strings(changed)
	sort.Strings(removed)
	return
}

// ---------------------------------------------------------------- failures

type Fail struct {
	Ok     bool        `json:"ok"`
	Sig    string      `json:"sig"`
	What   string      `json:"what"`
	Line   int         `json:"line"`
	Step   string      `json:"step"`
	Cmds   [][]string  `json:"cmds,omitempty"`
	Cfg    string      `json:"wallet_cfg,omitempty"`
	Wrote  string      `json:"wrote,omitempty"`
	Stdout string      `json:"stdout,omitempty"`
	Stderr string      `json:"stderr,omitempty"`
	Detail interface{} `json:"detail,omitempty"`
}

type stats struct {
	mu        sync.Mutex
	Lines     int            `json:"lines"`
	Written   int            `json:"written"`
	Refused   int            `json:"refused"`
	Raw       int            `json:"raw"`
	Second    int            `json:"second"`
	Inputs    int            `json:"inputs_verified"`
	RefInputs int            `json:"inputs_verified_by_ref"`
	ByStype   map[string]int `json:"by_stype"`
	ByDtype   map[string]int `json:"by_dtype"`
	Obs       map[string]int `json:"observations"`
	Fail      int            `json:"fail"`
	Infra     []string       `json:"infra,omitempty"`
	Runs      int64          `json:"wallet_runs"`
	Summary   bool           `json:"summary"`
}

var st = &stats{ByStype: map[string]int{}, ByDtype: map[string]int{}, Obs: map[string]int{}, Summary: true}
var out *vio.Out
var useRef = true

func (x *conc) fail(step, sig, what string, wrote string, detail interface{}) {
	f := Fail{Sig: "C13:" + sig, What: what, Line: x.line, Step: step, Cfg: x.w.cfg, Wrote: wrote, Detail: detail}
	for _, r := range x.log {
		f.Cmds = append(f.Cmds, r.Cmd)
	}
	if n := len(x.log); n > 0 {
		f.Stdout = tail(x.log[n-1].Stdout, 1500)
		f.Stderr = tail(x.log[n-1].Stderr, 1500)
	}
	out.Put(f)
	x.failed = true
	st.mu.Lock()
	st.Fail++
	st.mu.Unlock()
}

func tail(s string, n int) string {
	if len(s) > n {
		return s[len(s)-n:]
	}
	return s
}

func obs(k string) { st.mu.Lock(); st.Obs[k]++; st.mu.Unlock() }

// ---------------------------------------------------------------- running and judging one send

type sendReq struct {
	step         string
	addrs        []string
	amts         []uint64 // as written on the command line
	pays         []uint64 // what each destination must receive
	scripts      [][]byte
	mode         string
	fee          uint64
	feeCls       string
	subfee       bool
	useall       bool
	chAdr        string
	chScr        []byte // nil: default (an address of the wallet)
	msg          string
	msgPush      string
	amtStr       []string // the amounts as decimal coin strings (they may not fit 64 bits)
	reqBig       []*big.Int
	sig          string
	seq, lt, ver ArgWant
	pred         *Res
	// balance folder at the time of the request
	ops    [][36]byte
	owned  []bool
	scrs   [][]byte
	vals   []uint64
	stypes []string
}

func (x *conc) doSend(q *sendReq) (tx *PTx, raw []byte, ok bool) {
	c := x.c
	var args []string
	variant := prn(1000, "variant", salt, x.line, q.step)
	stdin := ""
	if variant%5 == 0 { // password through stdin (takes precedence over the .secret file)
		args = append(args, "-stdin")
		stdin = x.w.pass
	}
	pair := func(i int) string {
		if i < len(q.amtStr) {
			return q.addrs[i] + "=" + trimAmt(q.amtStr[i], variant/2+i)
		}
		return q.addrs[i] + "=" + satStr(q.amts[i], variant/2+i)
	}
	nsend := len(q.addrs)
	if q.mode == "batch" {
		nsend = 0
	} else if q.mode == "mixed" {
		nsend = 1
	}
	if nsend > 0 {
		var ps []string
		for i := 0; i < nsend; i++ {
			ps = append(ps, pair(i))
		}
		args = append(args, "-send", strings.Join(ps, ","))
	}
	if nsend < len(q.addrs) {
		var bf strings.Builder
		for i := nsend; i < len(q.addrs); i++ {
			bf.WriteString(pair(i) + "\n")
		}
		if err := os.WriteFile(filepath.Join(x.dir, "batch.lst"), []byte(bf.String()), 0o600); err != nil {
			x.infra(err)
			return
		}
		args = append(args, "-batch", "batch.lst")
	}
	if q.feeCls != "def" {
		args = append(args, "-fee", satStr(q.fee, variant/3))
	}
	if q.subfee {
		args = append(args, "-f")
	}
	if q.useall {
		args = append(args, "-useallinputs")
	}
	if q.chAdr != "" {
		args = append(args, "-change", q.chAdr)
	}
	if q.msg != "" {
		args = append(args, "-msg", q.msg)
	}
	if q.seq.Arg != "" {
		args = append(args, "-seq", q.seq.Arg)
	}
	if q.lt.Arg != "" {
		args = append(args, "-locktime", q.lt.Arg)
	}
	if q.ver.Arg != "" {
		args = append(args, "-txver", q.ver.Arg)
	}
	if c.Cfg.Atype != "p2kh" {
		args = append(args, "-atype", c.Cfg.Atype)
	}
	both := q.sig == "both" && !q.has("IMPU")
	if both {
		// -minsig re-signs until the signature is short, -rfc6979 makes every attempt the same: the run must still end
		args = append(args, "-minsig", "-rfc6979")
	} else if variant%3 == 0 {
		args = append(args, "-rfc6979")
	} else if variant%3 == 1 && !q.has("IMPU") {
		// (with an uncompressed key the minsig loop "len(ScriptSig) > 106 -> sign again" of sign_tx can never end;
		// on the unchanged tree that input crashes before it gets there: see sign-crash:IMPU)
		args = append(args, "-minsig")
	}
	txfn := ""
	if variant%4 == 1 {
		txfn = "signed-" + q.step + ".txt"
		args = append(args, "-txfn", txfn)
	}
	before := snapshot(x.dir)
	var r *runRes
	var err error
	if both {
		if atomic.LoadInt64(&hangsSeen) >= 2 {
			obs("minsig_rfc6979_not_run_after_two_hangs")
			return
		}
		r, err = runWalletT(x.dir, stdin, hangTimeout, args...)
		x.log = append(x.log, r)
		if err != nil && strings.Contains(err.Error(), "timed out") {
			// explain the hang: the same request without -minsig ends at once
			var a2 []string
			for _, a := range args {
				if a != "-minsig" {
					a2 = append(a2, a)
				}
			}
			r2, e2 := runWallet(x.dir, stdin, a2...)
			x.log = append(x.log, r2)
			if e2 != nil {
				x.infra(e2)
				return
			}
			atomic.AddInt64(&hangsSeen, 1)
			x.fail(q.step, "minsig-rfc6979-hang", fmt.Sprintf("`wallet ... -minsig -rfc6979` did not end within %v (killed, nothing written); the same request with -rfc6979 alone ends at once (exit %d): with deterministic nonces the minsig loop of sign_tx signs the same long signature for ever",
				hangTimeout, r2.Code), "", nil)
			return
		}
	} else {
		r, err = runWallet(x.dir, stdin, args...)
		x.log = append(x.log, r)
	}
	if err != nil {
		x.infra(err)
		return
	}
	after := snapshot(x.dir)
	created, changed, removed := diffSnap(before, after)
	crashed := strings.Contains(r.Stderr, "panic:") || strings.Contains(r.Stderr, "goroutine ")
	pred := q.pred

	// which file holds the transaction?
	var txfile string
	for _, f := range created {
		if !strings.HasPrefix(f, "balance/") && strings.HasSuffix(f, ".txt") {
			txfile = f
		}
	}
	if !pred.Written {
		st.mu.Lock()
		st.Refused++
		st.mu.Unlock()
		if len(created)+len(changed)+len(removed) > 0 {
			sig, what := "written-despite-insufficient", "funds do not cover the demand, yet the wallet wrote / changed files"
			if pred.Why == "subfee_underflow" {
				sig, what = "subfee-underflow-written", "-f with a first amount smaller than the fee: the request cannot be met, yet the wallet wrote / changed files"
			} else if cls := q.wrapClass(); cls != "" {
				sig = "amount-wrap:" + cls
				what = "the requested amounts (" + strings.Join(q.amtStr, " + ") + " BTC) exceed any balance, but they " + map[string]string{
					"parse": "do not fit 64 bits and are read modulo 2^64", "sum": "and the fee add up to 2^64 satoshi or more and the sum wraps"}[cls] +
					": the funds check passes and the wallet wrote / changed files"
			}
			wrote := ""
			if txfile != "" {
				b, _ := os.ReadFile(filepath.Join(x.dir, txfile))
				wrote = string(b)
			}
			x.fail(q.step, sig, fmt.Sprintf("%s (created %v changed %v removed %v, exit %d)", what, created, changed, removed, r.Code), wrote,
				map[string]interface{}{"need": q.needStr(), "funds": sum(q.vals, q.owned)})
		} else if r.Code == 0 {
			x.fail(q.step, "refusal-exit-zero", "the request was refused (nothing written) but the exit code is 0", "", nil)
		}
		return
	}
	// a transaction is predicted
	if txfile == "" {
		sig := "refused-although-sufficient"
		what := fmt.Sprintf("funds cover the demand but no transaction file was written (exit %d)", r.Code)
		if crashed {
			sig = "sign-crash:" + crashClass(q.stypesOwned())
			what = "the wallet crashed instead of writing the transaction: " + firstLineOf(r.Stderr, "panic:")
		}
		x.fail(q.step, sig, what, "", map[string]interface{}{"need": q.needStr(), "funds": sum(q.vals, q.owned), "created": created, "changed": changed})
		return
	}
	if txfn != "" && txfile != txfn {
		x.fail(q.step, "txfn-ignored", "-txfn "+txfn+" given but the transaction went to "+txfile, "", nil)
	}
	hx, _ := os.ReadFile(filepath.Join(x.dir, txfile))
	raw, err = hex.DecodeString(strings.TrimSpace(string(hx)))
	if err == nil {
		tx, err = parseTx(raw)
	}
	if err != nil {
		x.fail(q.step, "unparsable", "the written file is not a hex transaction: "+err.Error(), string(hx), nil)
		return nil, nil, false
	}
	wrote := string(hx)
	if txfn == "" && txfile != txidString(tx.txid())[:8]+".txt" {
		x.fail(q.step, "filename", "file "+txfile+" is not named after the transaction id "+txidString(tx.txid()), wrote, nil)
	}
	st.mu.Lock()
	st.Written++
	st.mu.Unlock()
	good := true
	bad := func(sig, what string, detail interface{}) {
		good = false
		x.fail(q.step, sig, what, wrote, detail)
	}

	// ---- fields
	if tx.Version != hexu32(q.ver.Want) {
		bad("fields:version", fmt.Sprintf("version %08x, asked %s", tx.Version, q.ver.Want), nil)
	}
	if tx.LockTime != hexu32(q.lt.Want) {
		bad("fields:locktime", fmt.Sprintf("lock time %08x, asked %s", tx.LockTime, q.lt.Want), nil)
	}
	for i, in := range tx.In {
		if in.Seq != hexu32(q.seq.Want) {
			bad("fields:sequence", fmt.Sprintf("input %d sequence %08x, asked %s", i, in.Seq, q.seq.Want), nil)
			break
		}
	}

	// ---- inputs: only listed outputs the wallet owns, each once
	var insum uint64
	var idxs []int
	seen := map[[36]byte]bool{}
	prev := make([]POut, len(tx.In))
	inputsOK := len(tx.In) > 0
	if len(tx.In) == 0 {
		bad("inputs-none", "the transaction has no inputs", nil)
	}
	for i, in := range tx.In {
		k := opKey(in.Hash, in.Vout)
		j := -1
		for n := range q.ops {
			if q.ops[n] == k {
				j = n
			}
		}
		switch {
		case j < 0:
			bad("inputs-not-listed", fmt.Sprintf("input %d spends %s-%03d which is not in balance/unspent.txt", i, txidString(in.Hash), in.Vout), nil)
			inputsOK = false
		case !q.owned[j]:
			bad("inputs-not-owned", fmt.Sprintf("input %d spends line %d (%s) the wallet has no key for", i, j+1, q.stypes[j]), nil)
			inputsOK = false
		case seen[k]:
			bad("inputs-duplicate", fmt.Sprintf("input %d spends line %d a second time", i, j+1), nil)
			inputsOK = false
		}
		seen[k] = true
		if j >= 0 {
			insum += q.vals[j]
			prev[i] = POut{Value: q.vals[j], Script: q.scrs[j]}
			idxs = append(idxs, j+1)
		}
	}
	if inputsOK && fmt.Sprint(idxs) != fmt.Sprint(pred.Ins) {
		// the property does not prescribe a selection order: noted, and the change is judged against the inputs really taken
		obs("selection_differs_from_transcribed_rule")
	}

	// ---- outputs: destinations in order with exact amounts, then the change, then the message
	var paysum uint64
	for i := range q.pays {
		paysum += q.pays[i]
		if i >= len(tx.Out) {
			bad("paysexactly", fmt.Sprintf("destination %d missing: the transaction has %d outputs", i+1, len(tx.Out)), nil)
			break
		}
		o := tx.Out[i]
		if !bytes.Equal(o.Script, q.scripts[i]) {
			bad("paysexactly", fmt.Sprintf("output %d pays to script %x, destination %d (%s) is %x", i, o.Script, i+1, q.addrs[i], q.scripts[i]), nil)
		} else if o.Value != q.pays[i] {
			bad("paysexactly", fmt.Sprintf("output %d pays %d satoshi to %s, requested %d (fee %d, -f %v)", i, o.Value, q.addrs[i], q.pays[i], q.fee, q.subfee), nil)
		}
	}
	if inputsOK && len(tx.Out) >= len(q.pays) {
		rest := tx.Out[len(q.pays):]
		if q.msg != "" {
			if len(rest) == 0 {
				bad(fmt.Sprintf("msg-output:len%d", len(q.msg)), "no OP_RETURN output although -msg was given", nil)
			} else {
				m := rest[len(rest)-1]
				rest = rest[:len(rest)-1]
				// OP_RETURN followed by the canonical push of exactly the message bytes (the model names the push form)
				var pfx []byte
				switch q.msgPush {
				case "direct":
					pfx = []byte{byte(len(q.msg))}
				case "pushdata1":
					pfx = []byte{0x4c, byte(len(q.msg))}
				default:
					pfx = []byte{0x4d, byte(len(q.msg)), byte(len(q.msg) >> 8)}
				}
				want := append(append([]byte{0x6a}, pfx...), q.msg...)
				if !bytes.Equal(pfx, push([]byte(q.msg))[:len(pfx)]) {
					x.infra(fmt.Errorf("model and driver disagree about the push form of a %d-byte message", len(q.msg)))
				}
				if !bytes.Equal(m.Script, want) || m.Value != 0 {
					bad(fmt.Sprintf("msg-output:len%d", len(q.msg)), fmt.Sprintf("-msg of %d bytes: the last output (value %d) has script %x..., expected the zero-value OP_RETURN %x... (0x6a, %s push of the %d message bytes)",
						len(q.msg), m.Value, m.Script[:min(8, len(m.Script))], want[:min(8, len(want))], q.msgPush, len(q.msg)), nil)
				}
			}
		}
		due := paysum + q.fee
		switch {
		case insum < due:
			bad("changeexact", fmt.Sprintf("inputs %d < payments %d + fee %d", insum, paysum, q.fee), nil)
		case insum == due:
			if len(rest) != 0 {
				bad("changeexact", fmt.Sprintf("no change is due (inputs %d = payments %d + fee %d) but there are %d extra outputs", insum, paysum, q.fee, len(rest)), nil)
			}
		default:
			want := insum - due
			if len(rest) != 1 {
				bad("changeexact", fmt.Sprintf("change of %d satoshi is due (inputs %d - payments %d - fee %d): %d outputs after the destinations instead of one", want, insum, paysum, q.fee, len(rest)), nil)
			} else {
				ch := rest[0]
				if ch.Value != want {
					bad("changeexact", fmt.Sprintf("change output carries %d satoshi, inputs %d - payments %d - fee %d = %d", ch.Value, insum, paysum, q.fee, want), nil)
				}
				if q.chScr != nil {
					if !bytes.Equal(ch.Script, q.chScr) {
						bad("changeaddress", fmt.Sprintf("change goes to script %x, -change %s is %x", ch.Script, q.chAdr, q.chScr), nil)
					}
				} else {
					// default: one of the wallet's own addresses (the code uses the script of the first owned line)
					own := false
					for j := range q.scrs {
						if q.owned[j] && bytes.Equal(q.scrs[j], ch.Script) {
							own = true
						}
					}
					if !own && !x.isOwnScript(ch.Script) {
						bad("changeaddress", fmt.Sprintf("default change goes to script %x which is not one of the wallet's own", ch.Script), nil)
					}
				}
			}
		}
		var outsum uint64
		for _, o := range tx.Out {
			outsum += o.Value
		}
		if insum >= due && insum-outsum != q.fee && good {
			bad("changeexact", fmt.Sprintf("inputs %d - outputs %d = %d, configured fee %d", insum, outsum, insum-outsum, q.fee), nil)
		}
	}
	// exact comparison with the model's transaction (when the inputs are the predicted ones)
	if good && fmt.Sprint(idxs) == fmt.Sprint(pred.Ins) {
		if len(tx.Out) != len(pred.Outs) {
			bad("prediction", fmt.Sprintf("%d outputs, the model predicts %d", len(tx.Out), len(pred.Outs)), nil)
		} else {
			for i, o := range pred.Outs {
				if tx.Out[i].Value != o.Amt.Sat() {
					bad("prediction", fmt.Sprintf("output %d (%s) carries %d, the model predicts %d", i, o.K, tx.Out[i].Value, o.Amt.Sat()), nil)
				}
			}
		}
	}

	// ---- every input's signature
	if inputsOK {
		for i := range tx.In {
			stype := "?"
			for n := range q.ops {
				if q.ops[n] == opKey(tx.In[i].Hash, tx.In[i].Vout) {
					stype = q.stypes[n]
				}
			}
			okv, perr := scriptVerify(raw, i, prev)
			if !okv {
				bad("sig-invalid:"+stype, fmt.Sprintf("input %d (%s, %d satoshi): script.VerifyTxScript under STANDARD_VERIFY_FLAGS fails %s", i, stype, prev[i].Value, perr), nil)
			}
			if useRef {
				if why := refVerify(tx, i, prev); why != "" {
					bad("sig-invalid-ref:"+stype, fmt.Sprintf("input %d (%s, %d satoshi): independent verification: %s", i, stype, prev[i].Value, why), nil)
				}
			}
			st.mu.Lock()
			st.Inputs++
			if useRef {
				st.RefInputs++
			}
			st.ByStype[stype]++
			st.mu.Unlock()
		}
	}
	if r.Code != 0 {
		bad("exit-nonzero", fmt.Sprintf("a transaction was written but the exit code is %d", r.Code), nil)
	}
	return tx, raw, good
}

func min(a, b int) int {
	if a < b {
		return a
	}
	return b
}

func (q *sendReq) needStr() string {
	var p uint64
	for _, v := range q.pays {
		p += v
	}
	return fmt.Sprintf("payments %d + fee %d", p, q.fee)
}

// wrapClass: does the request only look affordable in 64-bit arithmetic? "parse": one amount is 2^64 or more,
// "sum": the amounts plus the fee reach 2^64
func (q *sendReq) wrapClass() string {
	lim := new(big.Int).Lsh(big.NewInt(1), 64)
	sum := new(big.Int).SetUint64(q.fee)
	for _, v := range q.reqBig {
		if v.Cmp(lim) >= 0 {
			return "parse"
		}
		sum.Add(sum, v)
	}
	if q.subfee && q.mode != "batch" {
		sum.Sub(sum, new(big.Int).SetUint64(q.fee))
	}
	if sum.Cmp(lim) >= 0 {
		return "sum"
	}
	return ""
}

func (q *sendReq) has(st string) bool {
	for _, t := range q.stypes {
		if t == st {
			return true
		}
	}
	return false
}

func (q *sendReq) stypesOwned() (r []string) {
	for j, o := range q.owned {
		if o {
			r = append(r, q.stypes[j])
		}
	}
	return
}

// class of a crash in sign_tx: an uncompressed imported key among the inputs to sign is a class of its own
func crashClass(stypes []string) string {
	for _, t := range stypes {
		if t == "IMPU" {
			return "IMPU"
		}
	}
	return strings.Join(uniq(stypes), "+")
}

func uniq(s []string) []string {
	sort.Strings(s)
	var r []string
	for i, v := range s {
		if i == 0 || v != s[i-1] {
			r = append(r, v)
		}
	}
	return r
}

func firstLineOf(s, marker string) string {
	if i := strings.Index(s, marker); i >= 0 {
		s = s[i:]
		if j := strings.Index(s, "\n"); j >= 0 {
			s = s[:j]
		}
		return s
	}
	return tail(s, 200)
}

func sum(vals []uint64, owned []bool) (s uint64) {
	for i, v := range vals {
		if owned[i] {
			s += v
		}
	}
	return
}

func (x *conc) isOwnScript(s []byte) bool {
	for k := range x.w.pubs {
		for _, t := range []string{"P2PKH", "P2SH", "P2WPKH", "P2TR"} {
			if len(x.w.pubs[k]) == 65 && t != "P2PKH" {
				continue
			}
			if bytes.Equal(x.w.scriptOf(t, k), s) {
				return true
			}
		}
	}
	return false
}

func (x *conc) infra(err error) {
	st.mu.Lock()
	st.Infra = append(st.Infra, fmt.Sprintf("line %d: %v", x.line, err))
	st.mu.Unlock()
}

// ---------------------------------------------------------------- one case

func (x *conc) run() {
	c := x.c
	if err := x.setup(); err != nil {
		x.infra(err)
		return
	}
	if c.Phase == "rawsigned" {
		x.runRaw()
		return
	}
	q := &sendReq{step: "send", addrs: x.daddr, scripts: x.dscr, mode: c.Opts.Mode, fee: c.Fee.Amt.Sat(), feeCls: c.Fee.Cls,
		subfee: c.Opts.Subfee, useall: c.Opts.Useall, chAdr: x.chAdr, chScr: x.chScr, msg: x.msg, msgPush: c.Msg.Push, sig: c.Opts.Sig,
		seq: c.Seqc, lt: c.Lt, ver: c.Ver, pred: &c.Res, ops: x.uop, owned: c.Owned, scrs: x.uscr}
	for i, d := range c.Dests {
		q.amts = append(q.amts, d.Req.Sat())
		q.amtStr = append(q.amtStr, d.Req.BTC())
		q.reqBig = append(q.reqBig, d.Req.Big())
		q.pays = append(q.pays, d.Pay.Sat())
		st.mu.Lock()
		st.ByDtype[d.Dt]++
		st.mu.Unlock()
		_ = i
	}
	for _, u := range c.Unsp {
		q.vals = append(q.vals, u.Amt.Sat())
		q.stypes = append(q.stypes, u.St)
	}
	tx, _, good := x.doSend(q)
	if c.Phase != "built2" || tx == nil || !good {
		return
	}
	// ---- second step: the balance folder as the wallet rewrote it
	st.mu.Lock()
	st.Second++
	st.mu.Unlock()
	id := tx.txid()
	var want []string
	q2 := &sendReq{step: "sweep", mode: "send", fee: q.fee, feeCls: q.feeCls, useall: true, pred: &c.Res2,
		seq: ArgWant{"", "fffffffd"}, lt: ArgWant{"", "00000000"}, ver: ArgWant{"", "00000002"}}
	for _, u := range c.Unsp2 {
		var op [36]byte
		var po POut
		if u.T == 0 {
			if u.V >= len(tx.Out) {
				x.fail("sweep", "balance-after-send", "the model lists an output the transaction does not have", "", nil)
				return
			}
			op = opKey(id, uint32(u.V))
			po = tx.Out[u.V]
			if po.Value != u.Amt.Sat() {
				x.fail("sweep", "balance-after-send", "model / transaction amount mismatch for a new output", "", nil)
				return
			}
		} else {
			for j, o := range c.Unsp {
				if o.T == u.T && o.V == u.V {
					op = x.uop[j]
					po = x.prevs[op]
				}
			}
		}
		want = append(want, fmt.Sprintf("%s-%03d", txidString(*(*[32]byte)(op[:32])), binary.LittleEndian.Uint32(op[32:])))
		q2.ops = append(q2.ops, op)
		q2.scrs = append(q2.scrs, po.Script)
		q2.vals = append(q2.vals, po.Value)
		q2.stypes = append(q2.stypes, u.St)
		q2.owned = append(q2.owned, u.St != "FPKH" && u.St != "FMS" && !isMS(u.St) && !(u.St == "P2SH" && c.Cfg.Atype != "p2kh" && c.Cfg.Atype != "segwit"))
	}
	ub, _ := os.ReadFile(filepath.Join(x.dir, "balance", "unspent.txt"))
	var got []string
	for _, ln := range strings.Split(string(ub), "\n") {
		if ln = strings.TrimSpace(ln); ln != "" {
			got = append(got, strings.SplitN(ln, " ", 2)[0])
		}
	}
	gs, ws := append([]string{}, got...), append([]string{}, want...)
	sort.Strings(gs)
	sort.Strings(ws)
	if fmt.Sprint(gs) != fmt.Sprint(ws) {
		x.fail("sweep", "balance-after-send", fmt.Sprintf("balance/unspent.txt after the send lists %v, expected (unspent lines left + the wallet's new outputs) %v", got, want), string(ub), nil)
		return
	}
	if fmt.Sprint(got) != fmt.Sprint(want) {
		obs("unspent_txt_order_differs")
	}
	if !c.Res2.Written {
		return
	}
	// the balance copy of the new transaction must be the transaction
	if b, err := os.ReadFile(filepath.Join(x.dir, "balance", txidString(id)+".tx")); err != nil || !bytes.Equal(b, tx.serialize(false)) {
		x.fail("sweep", "balance-after-send", "balance/<txid>.tx of the new transaction is missing or differs from the written transaction", "", nil)
		return
	}
	a, s := x.foreignAddr("P2WPKH", "sweep", x.line)
	q2.addrs, q2.scripts = []string{a}, [][]byte{s}
	q2.amts = []uint64{c.Res2.Outs[0].Amt.Sat()}
	q2.pays = q2.amts
	x.doSend(q2)
}

// ---------------------------------------------------------------- -raw

func (x *conc) runRaw() {
	c := x.c
	st.mu.Lock()
	st.Raw++
	st.mu.Unlock()
	t := &PTx{Version: hexu32(c.Raw.Ver), LockTime: hexu32(c.Raw.Lt)}
	prev := make([]POut, len(c.Raw.Ins))
	for i, in := range c.Raw.Ins {
		op := x.uop[in.U-1]
		var pi PIn
		copy(pi.Hash[:], op[:32])
		pi.Vout = binary.LittleEndian.Uint32(op[32:])
		pi.Seq = hexu32(in.Sq)
		t.In = append(t.In, pi)
		prev[i] = x.prevs[op]
	}
	for i, o := range c.Raw.Outs {
		_, s := x.foreignAddr(o.Dt, "rawout", x.line, i)
		t.Out = append(t.Out, POut{Value: o.Amt.Sat(), Script: s})
	}
	unsigned := t.serialize(false)
	if err := os.WriteFile(filepath.Join(x.dir, "tosign.txt"), []byte(hex.EncodeToString(unsigned)), 0o600); err != nil {
		x.infra(err)
		return
	}
	cur := "tosign.txt"
	for i, in := range c.Raw.Ins {
		rs := x.uredm[in.U-1]
		if rs == nil {
			continue
		}
		rp, err := runWallet(x.dir, "", "-raw", cur, "-p2sh", hex.EncodeToString(rs), "-input", fmt.Sprint(i))
		x.log = append(x.log, rp)
		if err != nil {
			x.infra(err)
			return
		}
		b, err := os.ReadFile(filepath.Join(x.dir, "multi2sign.txt"))
		if err != nil {
			x.fail("raw", "p2sh-step", fmt.Sprintf("`wallet -raw -p2sh -input %d` did not write multi2sign.txt (exit %d)", i, rp.Code), "", nil)
			return
		}
		cur = fmt.Sprintf("tosign%d.txt", i)
		os.WriteFile(filepath.Join(x.dir, cur), b, 0o600)
		os.Remove(filepath.Join(x.dir, "multi2sign.txt"))
	}
	args := []string{"-raw", cur}
	if c.Cfg.Atype != "p2kh" {
		args = append(args, "-atype", c.Cfg.Atype)
	}
	variant := prn(1000, "rawvariant", salt, x.line)
	if variant%2 == 0 {
		args = append(args, "-rfc6979")
	}
	// switches that shape a -send transaction must not leak into a raw one
	if variant%3 == 0 {
		args = append(args, "-seq", "7", "-locktime", "99", "-txver", "1")
	}
	before := snapshot(x.dir)
	r, err := runWallet(x.dir, "", args...)
	x.log = append(x.log, r)
	if err != nil {
		x.infra(err)
		return
	}
	created, _, _ := diffSnap(before, snapshot(x.dir))
	var txfile string
	for _, f := range created {
		if !strings.HasPrefix(f, "balance/") && strings.HasSuffix(f, ".txt") {
			txfile = f
		}
	}
	anyOwned := false
	var ost []string
	for i, s := range c.Rres.Signed {
		if s {
			anyOwned = true
			ost = append(ost, c.Unsp[c.Raw.Ins[i].U-1].St)
		}
	}
	if txfile == "" {
		if strings.Contains(r.Stderr, "panic:") {
			x.fail("raw", "sign-crash:"+crashClass(ost), "the wallet crashed while signing a raw transaction: "+firstLineOf(r.Stderr, "panic:"), "", nil)
		} else if anyOwned {
			x.fail("raw", "raw-nothing-written", fmt.Sprintf("no file written for a raw transaction with inputs of the wallet (exit %d)", r.Code), "", nil)
		} else {
			obs("raw_without_own_inputs_not_written")
		}
		return
	}
	hx, _ := os.ReadFile(filepath.Join(x.dir, txfile))
	raw, err := hex.DecodeString(strings.TrimSpace(string(hx)))
	var tx *PTx
	if err == nil {
		tx, err = parseTx(raw)
	}
	if err != nil {
		x.fail("raw", "raw-unparsable", "the written file is not a hex transaction: "+err.Error(), string(hx), nil)
		return
	}
	wrote := string(hx)
	bad := func(sig, what string) {
		x.fail("raw", sig, what, wrote, map[string]string{"supplied": hex.EncodeToString(unsigned)})
	}
	if tx.Version != t.Version {
		bad("raw-altered:version", fmt.Sprintf("version %08x became %08x", t.Version, tx.Version))
	}
	if tx.LockTime != t.LockTime {
		bad("raw-altered:locktime", fmt.Sprintf("lock time %08x became %08x", t.LockTime, tx.LockTime))
	}
	if len(tx.In) != len(t.In) {
		bad("raw-altered:inputs", fmt.Sprintf("%d inputs became %d", len(t.In), len(tx.In)))
		return
	}
	for i := range t.In {
		if tx.In[i].Hash != t.In[i].Hash || tx.In[i].Vout != t.In[i].Vout {
			bad("raw-altered:outpoint", fmt.Sprintf("outpoint of input %d changed", i))
		}
		if tx.In[i].Seq != t.In[i].Seq {
			bad("raw-altered:sequence", fmt.Sprintf("sequence of input %d: %08x became %08x", i, t.In[i].Seq, tx.In[i].Seq))
		}
	}
	if len(tx.Out) != len(t.Out) {
		bad("raw-altered:outputs", fmt.Sprintf("%d outputs became %d", len(t.Out), len(tx.Out)))
	} else {
		for i := range t.Out {
			if tx.Out[i].Value != t.Out[i].Value || !bytes.Equal(tx.Out[i].Script, t.Out[i].Script) {
				bad("raw-altered:outputs", fmt.Sprintf("output %d changed", i))
			}
		}
	}
	for i := range tx.In {
		stype := c.Unsp[c.Raw.Ins[i].U-1].St
		if !c.Rres.Signed[i] {
			continue
		}
		okv, perr := scriptVerify(raw, i, prev)
		if !okv {
			bad("raw-sig-invalid:"+stype, fmt.Sprintf("input %d (%s): script.VerifyTxScript under STANDARD_VERIFY_FLAGS fails %s", i, stype, perr))
		}
		if useRef {
			if why := refVerify(tx, i, prev); why != "" {
				bad("raw-sig-invalid-ref:"+stype, fmt.Sprintf("input %d (%s): independent verification: %s", i, stype, why))
			}
		}
		st.mu.Lock()
		st.Inputs++
		if useRef {
			st.RefInputs++
		}
		st.ByStype[stype]++
		st.mu.Unlock()
	}
}

// ---------------------------------------------------------------- main

func main() {
	if len(os.Args) < 2 || os.Args[1] != "replay" {
		fmt.Fprintln(os.Stderr, "usage: wallettx replay -in lines -wallet bin -dir scratch -salt N -workers N")
		os.Exit(2)
	}
	fs := flag.NewFlagSet("replay", flag.ExitOnError)
	in := fs.String("in", "-", "exported cases")
	fs.StringVar(&walletBin, "wallet", "", "wallet binary")
	fs.StringVar(&base, "dir", "", "scratch directory")
	fs.IntVar(&salt, "salt", 1, "seed of the concretiser's choices")
	workers := fs.Int("workers", 8, "parallel cases")
	noref := fs.Bool("noref", false, "skip the independent (harness/ref) verification")
	keep := fs.Bool("keep", false, "keep the per-case directories of failing cases")
	firstLine := fs.Int("first", 0, "number of the first case (the concretiser's choices depend on the case number)")
	fs.Parse(os.Args[2:])
	useRef = !*noref
	out = vio.NewOut()
	if useRef {
		if fails, _ := ref.SelfTest(); len(fails) > 0 {
			st.Infra = append(st.Infra, "harness/ref self-test fails: "+fails[0])
			out.Put(st)
			out.Flush()
			return
		}
	}
	type job struct {
		n    int
		line []byte
	}
	jobs := make(chan job, 64)
	var wg sync.WaitGroup
	for w := 0; w < *workers; w++ {
		wg.Add(1)
		go func(w int) {
			defer wg.Done()
			for j := range jobs {
				var c Case
				if err := json.Unmarshal(j.line, &c); err != nil {
					st.mu.Lock()
					st.Infra = append(st.Infra, fmt.Sprintf("line %d: %v", j.n, err))
					st.mu.Unlock()
					continue
				}
				x := &conc{c: &c, line: j.n, dir: filepath.Join(base, fmt.Sprintf("w%d", w))}
				x.run()
				if *keep && x.failed {
					os.Rename(x.dir, filepath.Join(base, fmt.Sprintf("failed-line%d", j.n)))
				}
			}
		}(w)
	}
	err := vio.ReadLines(*in, func(n int, line []byte) error {
		st.mu.Lock()
		st.Lines++
		st.mu.Unlock()
		jobs <- job{n + *firstLine, append([]byte{}, line...)}
		return nil
	})
	close(jobs)
	wg.Wait()
	if err != nil {
		st.Infra = append(st.Infra, err.Error())
	}
	st.Runs = runs
	out.Put(st)
	out.Flush()
}
