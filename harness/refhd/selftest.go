package refhd

import (
	"bytes"
	"encoding/hex"
	"fmt"
	"math/big"
)

func unhex(s string) []byte {
	b, err := hex.DecodeString(s)
	if err != nil {
		panic(err)
	}
	return b
}

// SelfTest checks the package against published vectors; it returns the failures and the number of checks.
func SelfTest() (fails []string, n int) {
	chk := func(name string, ok bool) {
		n++
		if !ok {
			fails = append(fails, name)
		}
	}
	eq := func(name string, got []byte, want string) {
		chk(name+": "+hex.EncodeToString(got), hex.EncodeToString(got) == want)
	}

	// curve: G on curve, n*G = infinity, table multiplication = double-and-add, known multiples (SEC 2 / common test vectors)
	g := Pt{X: Gx, Y: Gy}
	chk("G on curve", g.OnCurve())
	chk("n*G = O", MulSlow(g, N).Inf && BaseMul(N).Inf)
	eq("2G", BaseMul(big.NewInt(2)).Compressed(), "02c6047f9441ed7d6d3045406e95c07cd85c778e4b8cef3ca7abac09b95c709ee5")
	eq("3G", BaseMul(big.NewInt(3)).Compressed(), "02f9308a019258c31049344f85f89d5229b531c845836f99b08601f113bce036f9")
	eq("(n-1)G", BaseMul(new(big.Int).Sub(N, big.NewInt(1))).Compressed(), "0379be667ef9dcbbac55a06295ce870b07029bfcdb2dce28d959f2815b16f81798")
	for i := 0; i < 8; i++ {
		k := new(big.Int).SetBytes(Sha256([]byte(fmt.Sprint("refhd selftest ", i))))
		k.Mod(k, N)
		a, b := BaseMul(k), MulSlow(g, k)
		chk("BaseMul = MulSlow", a.OnCurve() && a.X.Cmp(b.X) == 0 && a.Y.Cmp(b.Y) == 0)
		pc, err := ParseCompressed(a.Compressed())
		chk("ParseCompressed", err == nil && pc.Y.Cmp(a.Y) == 0)
	}

	// RIPEMD-160 (vectors of the RIPEMD-160 paper)
	eq("rmd ''", Ripemd160(nil), "9c1185a5c5e9fc54612808977ee8f548b2258d31")
	eq("rmd a", Ripemd160([]byte("a")), "0bdc9d2d256b3ee9daae347be6f4dc835a467ffe")
	eq("rmd abc", Ripemd160([]byte("abc")), "8eb208f7e05d987a9b044a8e98c6b087f15a0bfc")
	eq("rmd md", Ripemd160([]byte("message digest")), "5d0689ef49d2fae572b881b123a85ffa21595f36")
	eq("rmd a-z", Ripemd160([]byte("abcdefghijklmnopqrstuvwxyz")), "f71c27109c692c1b56bbdceb5b9d2865b3708dbc")
	eq("rmd 8x", Ripemd160(bytes.Repeat([]byte("1234567890"), 8)), "9b752e45573d4b39f4dbd3323cab82bf63326bfb")

	// scrypt (RFC 7914 section 12), PBKDF2-HMAC-SHA256 (RFC 7914 section 11)
	eq("scrypt 1", Scrypt(nil, nil, 16, 1, 1, 64), "77d6576238657b203b19ca42c18a0497f16b4844e3074ae8dfdffa3fede21442fcd0069ded0948f8326a753a0fc81f17e8d3e0fb2e0d3628cf35e20c38d18906")
	eq("scrypt 2", Scrypt([]byte("password"), []byte("NaCl"), 1024, 8, 16, 64), "fdbabe1c9d3472007856e7190d01e9fe7c6ad7cbc8237830e77376634b3731622eaf30d92e22a3886ff109279d9830dac727afb94a83ee6d8360cbdfa2cc0640")

	// Base58Check / WIF / addresses: the key 1 (well known)
	one := make([]byte, 32)
	one[31] = 1
	chk("wif(1)", WIF(one, false, true) == "KwDiBf89QgGbjEhKnhXJuH7LrciVrZi3qYjgd9M7rFU73sVHnoWn")
	chk("p2pkh(1)", AddrP2PKH(PubFromPriv(one, true), false) == "1BgGZ9tcN4rm9KBzDn7KprQz87SZ26SAMH")
	chk("p2wpkh(1)", AddrP2WPKH(PubFromPriv(one, true), false) == "bc1qw508d6qejxtdg4y5r3zarvary0c5xw7kv8f3t4")
	chk("p2sh-p2wpkh(1)", AddrP2SHP2WPKH(PubFromPriv(one, true), false) == "3JvL6Ymt8MVWiCNHC7oWU6nLeHNJKLZGLN")
	// BIP350 vector: witness v1 program = x(G)
	chk("bech32m", SegwitAddr("bc", 1, unhex("79be667ef9dcbbac55a06295ce870b07029bfcdb2dce28d959f2815b16f81798")) == "bc1p0xlxvlhemja6c4dqv22uapctqupfhlxm9h8z3k2e72q4k9hcz7vqzk5jj0")
	chk("bech32 tb", SegwitAddr("tb", 0, unhex("1863143c14c5166804bd19203356da136c985678cd4d27a1b8c6329604903262")) == "tb1qrp33g0q5c5txsp9arysrx4k6zdkfs4nce4xj0gdcccefvpysxf3q0sl5k7")

	// BIP32 test vector 1 (chain m/0'/1/2'/2/1000000000)
	m, err := Master(unhex("000102030405060708090a0b0c0d0e0f"))
	chk("tv1 master", err == nil && m.Serialize(VerXprv, true) == "xprv9s21ZrQH143K3QTDL4LXw2F7HEK3wJUD2nW2nRk4stbPy6cq3jPPqjiChkVvvNKmPGJxWUtg6LnF5kejMRNNU3TGtRBeJgk33yuGBxrMPHi" &&
		m.Serialize(VerXpub, false) == "xpub661MyMwAqRbcFtXgS5sYJABqqG9YLmC4Q1Rdap9gSE8NqtwybGhePY2gZ29ESFjqJoCu1Rupje8YtGqsefD265TMg7usUDFdp6W1EGMcet8")
	if err == nil {
		c, _ := m.CKDpriv(Hardened)
		chk("tv1 m/0'", c.Serialize(VerXprv, true) == "xprv9uHRZZhk6KAJC1avXpDAp4MDc3sQKNxDiPvvkX8Br5ngLNv1TxvUxt4cV1rGL5hj6KCesnDYUhd7oWgT11eZG7XnxHrnYeSvkzY7d2bhkJ7")
		c1, _ := c.CKDpriv(1)
		chk("tv1 m/0'/1", c1.Serialize(VerXpub, false) == "xpub6ASuArnXKPbfEwhqN6e3mwBcDTgzisQN1wXN9BJcM47sSikHjJf3UFHKkNAWbWMiGj7Wf5uMash7SyYq527Hqck2AxYysAA7xmALppuCkwQ")
		p1, _ := c.Neuter().CKDpub(1)
		chk("tv1 N(m/0')/1", p1.Serialize(VerXpub, false) == c1.Serialize(VerXpub, false))
		back, ver, e2 := ParseXKey(c1.Serialize(VerXprv, true))
		chk("parse xprv", e2 == nil && ver == VerXprv && bytes.Equal(back.Priv, c1.Priv) && back.Depth == 2 && back.Index == 1)
	}

	// BIP39: word list hash, the all-zero / all-one vectors with passphrase TREZOR
	eq("english.txt", Sha256([]byte(joinLines(Words))), "2f5eed53a4727b4bf8880d8f3f199efc90e58503646d9ff8eff3a2ed3b24dbda")
	mn, _ := Mnemonic(make([]byte, 16))
	chk("bip39 zero", mn == "abandon abandon abandon abandon abandon abandon abandon abandon abandon abandon abandon about")
	eq("bip39 zero seed", MnemonicSeed(mn, "TREZOR"), "c55257c360c07c72029aebc1b53c05ed0362ada38ead3e3e9efa3708e53495531f09a6987599d18264c1e1c92f2cf141630c7a3c4ab7c81b2f001698e7463b04")
	mn, _ = Mnemonic(bytes.Repeat([]byte{0xff}, 32))
	chk("bip39 ones", mn == "zoo zoo zoo zoo zoo zoo zoo zoo zoo zoo zoo zoo zoo zoo zoo zoo zoo zoo zoo zoo zoo zoo zoo vote")
	e, err := MnemonicEntropy(mn)
	chk("bip39 inverse", err == nil && bytes.Equal(e, bytes.Repeat([]byte{0xff}, 32)))
	_, err = MnemonicEntropy("abandon abandon abandon abandon abandon abandon abandon abandon abandon abandon abandon abandon")
	chk("bip39 bad checksum", err != nil)
	return
}

func joinLines(w []string) string {
	var b bytes.Buffer
	for _, x := range w {
		b.WriteString(x)
		b.WriteByte('\n')
	}
	return b.String()
}
