package refhd

import (
	"bytes"
	"encoding/binary"
	"errors"
	"math/big"
)

// Version bytes of serialized extended keys (BIP32, SLIP-132).
const (
	VerXprv, VerXpub = 0x0488ADE4, 0x0488B21E
	VerYprv, VerYpub = 0x049d7878, 0x049d7cb2
	VerZprv, VerZpub = 0x04b2430c, 0x04b24746
	VerTprv, VerTpub = 0x04358394, 0x043587cf
	VerUprv, VerUpub = 0x044a4e28, 0x044a5262
	VerVprv, VerVpub = 0x045f18bc, 0x045f1cf6
)

const Hardened = 0x80000000

// XKey is an extended key: private (Priv != nil) or public only.
type XKey struct {
	Priv   []byte // 32 bytes or nil
	Pub    []byte // 33 bytes, always set
	Chain  []byte // 32 bytes
	Depth  byte
	Finger [4]byte // of the parent
	Index  uint32
}

// Master is BIP32 "Master key generation": I = HMAC-SHA512("Bitcoin seed", S).
func Master(seed []byte) (*XKey, error) {
	i := HmacSha512([]byte("Bitcoin seed"), seed)
	k := new(big.Int).SetBytes(i[:32])
	if k.Sign() == 0 || k.Cmp(N) >= 0 {
		return nil, errors.New("invalid master key")
	}
	return &XKey{Priv: i[:32], Pub: PubFromPriv(i[:32], true), Chain: i[32:]}, nil
}

func ser32(i uint32) []byte { b := make([]byte, 4); binary.BigEndian.PutUint32(b, i); return b }

func (x *XKey) fingerprint() (f [4]byte) { copy(f[:], Hash160(x.Pub)[:4]); return }

// CKDpriv is BIP32 "Private parent key -> private child key".
func (x *XKey) CKDpriv(i uint32) (*XKey, error) {
	if x.Priv == nil {
		return nil, errors.New("no private key")
	}
	var I []byte
	if i >= Hardened {
		I = HmacSha512(x.Chain, []byte{0}, x.Priv, ser32(i))
	} else {
		I = HmacSha512(x.Chain, x.Pub, ser32(i))
	}
	il := new(big.Int).SetBytes(I[:32])
	if il.Cmp(N) >= 0 {
		return nil, errors.New("IL >= n")
	}
	k := new(big.Int).Add(il, new(big.Int).SetBytes(x.Priv))
	k.Mod(k, N)
	if k.Sign() == 0 {
		return nil, errors.New("child key is zero")
	}
	priv := make([]byte, 32)
	k.FillBytes(priv)
	return &XKey{Priv: priv, Pub: PubFromPriv(priv, true), Chain: I[32:], Depth: x.Depth + 1, Finger: x.fingerprint(), Index: i}, nil
}

// CKDpub is BIP32 "Public parent key -> public child key" (non-hardened only).
func (x *XKey) CKDpub(i uint32) (*XKey, error) {
	if i >= Hardened {
		return nil, errors.New("hardened child of a public key")
	}
	I := HmacSha512(x.Chain, x.Pub, ser32(i))
	il := new(big.Int).SetBytes(I[:32])
	if il.Cmp(N) >= 0 {
		return nil, errors.New("IL >= n")
	}
	par, err := ParseCompressed(x.Pub)
	if err != nil {
		return nil, err
	}
	pt := Add(BaseMul(il), par)
	if pt.Inf {
		return nil, errors.New("child is infinity")
	}
	return &XKey{Pub: pt.Compressed(), Chain: I[32:], Depth: x.Depth + 1, Finger: x.fingerprint(), Index: i}, nil
}

// Neuter is BIP32's N((k, c)) = (point(k), c).
func (x *XKey) Neuter() *XKey {
	y := *x
	y.Priv = nil
	return &y
}

// Serialize: 4 version | 1 depth | 4 parent fingerprint | 4 child number | 32 chain code | 33 key data, Base58Check.
func (x *XKey) Serialize(version uint32, private bool) string {
	var b bytes.Buffer
	b.Write(ser32(version))
	b.WriteByte(x.Depth)
	b.Write(x.Finger[:])
	b.Write(ser32(x.Index))
	b.Write(x.Chain)
	if private {
		b.WriteByte(0)
		b.Write(x.Priv)
	} else {
		b.Write(x.Pub)
	}
	return B58CheckEncode(b.Bytes())
}

// ParseXKey decodes a serialized extended key and returns its version bytes.
func ParseXKey(s string) (*XKey, uint32, error) {
	p, err := B58CheckDecode(s)
	if err != nil {
		return nil, 0, err
	}
	if len(p) != 78 {
		return nil, 0, errors.New("extended key must be 78 bytes")
	}
	x := &XKey{Depth: p[4], Index: binary.BigEndian.Uint32(p[9:13]), Chain: p[13:45]}
	copy(x.Finger[:], p[5:9])
	if p[45] == 0 {
		x.Priv = p[46:78]
		x.Pub = PubFromPriv(x.Priv, true)
		if x.Pub == nil {
			return nil, 0, errors.New("private key out of range")
		}
	} else {
		if _, err := ParseCompressed(p[45:78]); err != nil {
			return nil, 0, err
		}
		x.Pub = p[45:78]
	}
	return x, binary.BigEndian.Uint32(p[:4]), nil
}
