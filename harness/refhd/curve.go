// Package refhd is the independent evaluator of the C14 check: secp256k1 public keys, BIP32, BIP39,
// scrypt, RIPEMD-160, Base58Check, Bech32(m), WIF - written from the specifications (SEC 2, BIP32, BIP39,
// BIP173/350, RFC 7914, the RIPEMD-160 paper) over math/big and the standard library's SHA-2 / HMAC.
// It imports nothing of gocoin.  SelfTest() checks every part against published vectors and must pass
// before the package is used as an oracle.
package refhd

import (
	"errors"
	"math/big"
	"sync"
)

func hexInt(s string) *big.Int {
	v, ok := new(big.Int).SetString(s, 16)
	if !ok {
		panic("hexInt " + s)
	}
	return v
}

// SEC 2, section 2.4.1: secp256k1
var (
	P  = hexInt("FFFFFFFFFFFFFFFFFFFFFFFFFFFFFFFFFFFFFFFFFFFFFFFFFFFFFFFEFFFFFC2F")
	N  = hexInt("FFFFFFFFFFFFFFFFFFFFFFFFFFFFFFFEBAAEDCE6AF48A03BBFD25E8CD0364141")
	Gx = hexInt("79BE667EF9DCBBAC55A06295CE870B07029BFCDB2DCE28D959F2815B16F81798")
	Gy = hexInt("483ADA7726A3C4655DA4FBFC0E1108A8FD17B448A68554199C47D08FFB10D4B8")
)

// Pt is an affine point; Inf marks the point at infinity.
type Pt struct {
	X, Y *big.Int
	Inf  bool
}

// jac is a point in Jacobian coordinates (x = X/Z^2, y = Y/Z^3); Z = 0 is infinity.
type jac struct{ X, Y, Z *big.Int }

func mod(v *big.Int) *big.Int           { return v.Mod(v, P) }
func mul(a, b *big.Int) *big.Int        { return mod(new(big.Int).Mul(a, b)) }
func sub(a, b *big.Int) *big.Int        { return mod(new(big.Int).Sub(a, b)) }
func add(a, b *big.Int) *big.Int        { return mod(new(big.Int).Add(a, b)) }
func muli(a *big.Int, k int64) *big.Int { return mod(new(big.Int).Mul(a, big.NewInt(k))) }

func (p jac) inf() bool { return p.Z.Sign() == 0 }

// dbl: doubling for a = 0
func (p jac) dbl() jac {
	if p.inf() || p.Y.Sign() == 0 {
		return jac{big.NewInt(1), big.NewInt(1), big.NewInt(0)}
	}
	y2 := mul(p.Y, p.Y)
	s := muli(mul(p.X, y2), 4)
	m := muli(mul(p.X, p.X), 3)
	x3 := sub(mul(m, m), muli(s, 2))
	y3 := sub(mul(m, sub(s, x3)), muli(mul(y2, y2), 8))
	z3 := muli(mul(p.Y, p.Z), 2)
	return jac{x3, y3, z3}
}

// addAff: p + q for an affine finite q
func (p jac) addAff(q Pt) jac {
	if q.Inf {
		return p
	}
	if p.inf() {
		return jac{new(big.Int).Set(q.X), new(big.Int).Set(q.Y), big.NewInt(1)}
	}
	z2 := mul(p.Z, p.Z)
	u2 := mul(q.X, z2)
	s2 := mul(q.Y, mul(z2, p.Z))
	h := sub(u2, p.X)
	r := sub(s2, p.Y)
	if h.Sign() == 0 {
		if r.Sign() == 0 {
			return p.dbl()
		}
		return jac{big.NewInt(1), big.NewInt(1), big.NewInt(0)}
	}
	h2 := mul(h, h)
	h3 := mul(h2, h)
	xh2 := mul(p.X, h2)
	x3 := sub(sub(mul(r, r), h3), muli(xh2, 2))
	y3 := sub(mul(r, sub(xh2, x3)), mul(p.Y, h3))
	z3 := mul(p.Z, h)
	return jac{x3, y3, z3}
}

func (p jac) affine() Pt {
	if p.inf() {
		return Pt{Inf: true}
	}
	zi := new(big.Int).ModInverse(p.Z, P)
	zi2 := mul(zi, zi)
	return Pt{X: mul(p.X, zi2), Y: mul(p.Y, mul(zi2, zi))}
}

// Add is the group law on affine points.
func Add(a, b Pt) Pt {
	if a.Inf {
		return b
	}
	return jac{new(big.Int).Set(a.X), new(big.Int).Set(a.Y), big.NewInt(1)}.addAff(b).affine()
}

// OnCurve: y^2 = x^3 + 7 with both coordinates below p.
func (a Pt) OnCurve() bool {
	if a.Inf || a.X.Sign() < 0 || a.Y.Sign() < 0 || a.X.Cmp(P) >= 0 || a.Y.Cmp(P) >= 0 {
		return false
	}
	return mul(a.Y, a.Y).Cmp(add(mul(mul(a.X, a.X), a.X), big.NewInt(7))) == 0
}

// MulSlow is k*a by plain double-and-add (the yardstick for BaseMul).
func MulSlow(a Pt, k *big.Int) Pt {
	r := jac{big.NewInt(1), big.NewInt(1), big.NewInt(0)}
	for i := k.BitLen() - 1; i >= 0; i-- {
		r = r.dbl()
		if k.Bit(i) == 1 {
			r = r.addAff(a)
		}
	}
	return r.affine()
}

var (
	tabOnce sync.Once
	tab     [64][16]Pt // tab[j][d] = d * 16^j * G
)

func buildTab() {
	base := Pt{X: Gx, Y: Gy}
	for j := 0; j < 64; j++ {
		acc := jac{big.NewInt(1), big.NewInt(1), big.NewInt(0)}
		tab[j][0] = Pt{Inf: true}
		for d := 1; d < 16; d++ {
			acc = acc.addAff(base)
			tab[j][d] = acc.affine()
		}
		// next base = 16 * base
		b := jac{new(big.Int).Set(base.X), new(big.Int).Set(base.Y), big.NewInt(1)}
		for i := 0; i < 4; i++ {
			b = b.dbl()
		}
		base = b.affine()
	}
}

// BaseMul returns k*G for 0 <= k < 2^256 (infinity for multiples of n).
func BaseMul(k *big.Int) Pt {
	tabOnce.Do(buildTab)
	if k.Sign() < 0 || k.BitLen() > 256 {
		panic("BaseMul: scalar out of range")
	}
	r := jac{big.NewInt(1), big.NewInt(1), big.NewInt(0)}
	w := k.Bits()
	_ = w
	for j := 0; j < 64; j++ {
		d := 0
		for b := 0; b < 4; b++ {
			d |= int(k.Bit(4*j+b)) << uint(b)
		}
		if d != 0 {
			r = r.addAff(tab[j][d])
		}
	}
	return r.affine()
}

// Compressed is the SEC 1 compressed encoding (02 / 03 by the parity of y).
func (a Pt) Compressed() []byte {
	if a.Inf {
		panic("Compressed: infinity")
	}
	out := make([]byte, 33)
	out[0] = 2 + byte(a.Y.Bit(0))
	a.X.FillBytes(out[1:])
	return out
}

// Uncompressed is the SEC 1 uncompressed encoding.
func (a Pt) Uncompressed() []byte {
	out := make([]byte, 65)
	out[0] = 4
	a.X.FillBytes(out[1:33])
	a.Y.FillBytes(out[33:])
	return out
}

// ParseCompressed decodes 02/03 || x: x < p, x^3 + 7 a square, y of the stated parity.
func ParseCompressed(b []byte) (Pt, error) {
	if len(b) != 33 || (b[0] != 2 && b[0] != 3) {
		return Pt{}, errors.New("not a compressed point")
	}
	x := new(big.Int).SetBytes(b[1:])
	if x.Cmp(P) >= 0 {
		return Pt{}, errors.New("x >= p")
	}
	rhs := add(mul(mul(x, x), x), big.NewInt(7))
	e := new(big.Int).Add(P, big.NewInt(1))
	e.Rsh(e, 2)
	y := new(big.Int).Exp(rhs, e, P) // p = 3 mod 4
	if mul(y, y).Cmp(rhs) != 0 {
		return Pt{}, errors.New("x is not on the curve")
	}
	if y.Bit(0) != uint(b[0]&1) {
		y = sub(big.NewInt(0), y)
	}
	return Pt{X: x, Y: y}, nil
}

// PubFromPriv: the public key of a 32-byte secret (nil when the secret is 0 or >= n).
func PubFromPriv(priv []byte, compressed bool) []byte {
	k := new(big.Int).SetBytes(priv)
	if k.Sign() == 0 || k.Cmp(N) >= 0 {
		return nil
	}
	pt := BaseMul(k)
	if compressed {
		return pt.Compressed()
	}
	return pt.Uncompressed()
}
