package refhd

import (
	"bytes"
	"errors"
	"math/big"
	"strings"
)

const b58Alphabet = "123456789ABCDEFGHJKLMNPQRSTUVWXYZabcdefghijkmnopqrstuvwxyz"

func B58Encode(b []byte) string {
	x := new(big.Int).SetBytes(b)
	k := big.NewInt(58)
	r := new(big.Int)
	var out []byte
	for x.Sign() > 0 {
		x.DivMod(x, k, r)
		out = append(out, b58Alphabet[r.Int64()])
	}
	for _, c := range b {
		if c != 0 {
			break
		}
		out = append(out, '1')
	}
	for i, j := 0, len(out)-1; i < j; i, j = i+1, j-1 {
		out[i], out[j] = out[j], out[i]
	}
	return string(out)
}

func B58Decode(s string) ([]byte, error) {
	x := new(big.Int)
	k := big.NewInt(58)
	for _, c := range s {
		i := strings.IndexRune(b58Alphabet, c)
		if i < 0 {
			return nil, errors.New("not a base58 character")
		}
		x.Mul(x, k)
		x.Add(x, big.NewInt(int64(i)))
	}
	var out []byte
	for _, c := range s {
		if c != '1' {
			break
		}
		out = append(out, 0)
	}
	return append(out, x.Bytes()...), nil
}

func B58CheckEncode(payload []byte) string {
	return B58Encode(append(append([]byte{}, payload...), Sha256d(payload)[:4]...))
}

func B58CheckDecode(s string) ([]byte, error) {
	b, err := B58Decode(s)
	if err != nil {
		return nil, err
	}
	if len(b) < 4 {
		return nil, errors.New("too short")
	}
	p := b[:len(b)-4]
	if !bytes.Equal(Sha256d(p)[:4], b[len(b)-4:]) {
		return nil, errors.New("bad checksum")
	}
	return p, nil
}

// ---- Bech32 / Bech32m (BIP173, BIP350)

const bech32Charset = "qpzry9x8gf2tvdw0s3jn54khce6mua7l"

func bech32Polymod(v []byte) uint32 {
	gen := [5]uint32{0x3b6a57b2, 0x26508e6d, 0x1ea119fa, 0x3d4233dd, 0x2a1462b3}
	chk := uint32(1)
	for _, x := range v {
		top := chk >> 25
		chk = (chk&0x1ffffff)<<5 ^ uint32(x)
		for i := 0; i < 5; i++ {
			if (top>>uint(i))&1 == 1 {
				chk ^= gen[i]
			}
		}
	}
	return chk
}

// SegwitAddr encodes a witness program (version 0: Bech32, version 1..16: Bech32m).
func SegwitAddr(hrp string, ver int, prog []byte) string {
	data := []byte{byte(ver)}
	acc, nb := 0, 0
	for _, b := range prog {
		acc = acc<<8 | int(b)
		nb += 8
		for nb >= 5 {
			nb -= 5
			data = append(data, byte(acc>>uint(nb))&31)
		}
	}
	if nb > 0 {
		data = append(data, byte(acc<<uint(5-nb))&31)
	}
	var v []byte
	for _, c := range hrp {
		v = append(v, byte(c)>>5)
	}
	v = append(v, 0)
	for _, c := range hrp {
		v = append(v, byte(c)&31)
	}
	v = append(v, data...)
	v = append(v, 0, 0, 0, 0, 0, 0)
	k := uint32(1)
	if ver != 0 {
		k = 0x2bc830a3
	}
	pm := bech32Polymod(v) ^ k
	var sb strings.Builder
	sb.WriteString(hrp)
	sb.WriteByte('1')
	for _, d := range data {
		sb.WriteByte(bech32Charset[d])
	}
	for i := 0; i < 6; i++ {
		sb.WriteByte(bech32Charset[(pm>>uint(5*(5-i)))&31])
	}
	return sb.String()
}

// ---- address forms of a compressed public key

// AddrP2PKH: Base58Check(version || HASH160(pub)); version 0 / 111.
func AddrP2PKH(pub []byte, testnet bool) string {
	v := byte(0)
	if testnet {
		v = 111
	}
	return B58CheckEncode(append([]byte{v}, Hash160(pub)...))
}

// AddrP2SHP2WPKH (BIP141 nested): Base58Check(5 / 196 || HASH160(0014 HASH160(pub))).
func AddrP2SHP2WPKH(pub []byte, testnet bool) string {
	v := byte(5)
	if testnet {
		v = 196
	}
	redeem := append([]byte{0, 20}, Hash160(pub)...)
	return B58CheckEncode(append([]byte{v}, Hash160(redeem)...))
}

func hrpOf(testnet bool) string {
	if testnet {
		return "tb"
	}
	return "bc"
}

// AddrP2WPKH (BIP173): witness version 0, program HASH160(pub).
func AddrP2WPKH(pub []byte, testnet bool) string { return SegwitAddr(hrpOf(testnet), 0, Hash160(pub)) }

// AddrTapBareKey: witness version 1 with the x coordinate of the key itself as the program (what the wallet
// lists under atype=tap: no BIP341 tweak).
func AddrTapBareKey(pub []byte, testnet bool) string { return SegwitAddr(hrpOf(testnet), 1, pub[1:33]) }

// WIF: Base58Check(0x80 / 0xef || key [|| 01])
func WIF(priv []byte, testnet, compressed bool) string {
	p := []byte{0x80}
	if testnet {
		p[0] = 0xef
	}
	p = append(p, priv...)
	if compressed {
		p = append(p, 1)
	}
	return B58CheckEncode(p)
}

func WIFDecode(s string) (priv []byte, testnet, compressed bool, err error) {
	p, err := B58CheckDecode(s)
	if err != nil {
		return nil, false, false, err
	}
	if len(p) != 33 && !(len(p) == 34 && p[33] == 1) {
		return nil, false, false, errors.New("bad WIF length")
	}
	if p[0] != 0x80 && p[0] != 0xef {
		return nil, false, false, errors.New("bad WIF version")
	}
	return p[1:33], p[0] == 0xef, len(p) == 34, nil
}
