package refhd

import (
	"crypto/hmac"
	"crypto/sha256"
	"crypto/sha512"
	"encoding/binary"
	"hash"
	"math/bits"
)

func Sha256(b ...[]byte) []byte {
	h := sha256.New()
	for _, x := range b {
		h.Write(x)
	}
	return h.Sum(nil)
}

func Sha256d(b []byte) []byte { return Sha256(Sha256(b)) }

func HmacSha512(key []byte, data ...[]byte) []byte {
	m := hmac.New(sha512.New, key)
	for _, d := range data {
		m.Write(d)
	}
	return m.Sum(nil)
}

// Pbkdf2 is RFC 8018 PBKDF2 with HMAC over the given hash.
func Pbkdf2(h func() hash.Hash, password, salt []byte, iter, dkLen int) []byte {
	prf := hmac.New(h, password)
	hl := prf.Size()
	var out []byte
	for blk := uint32(1); len(out) < dkLen; blk++ {
		prf.Reset()
		prf.Write(salt)
		var ib [4]byte
		binary.BigEndian.PutUint32(ib[:], blk)
		prf.Write(ib[:])
		u := prf.Sum(nil)
		t := append([]byte{}, u...)
		for i := 1; i < iter; i++ {
			prf.Reset()
			prf.Write(u)
			u = prf.Sum(nil)
			for k := 0; k < hl; k++ {
				t[k] ^= u[k]
			}
		}
		out = append(out, t...)
	}
	return out[:dkLen]
}

// ---- RIPEMD-160 (Dobbertin, Bosselaers, Preneel: "RIPEMD-160, a strengthened version of RIPEMD", appendix A)

var (
	rmdR = [80]int{
		0, 1, 2, 3, 4, 5, 6, 7, 8, 9, 10, 11, 12, 13, 14, 15,
		7, 4, 13, 1, 10, 6, 15, 3, 12, 0, 9, 5, 2, 14, 11, 8,
		3, 10, 14, 4, 9, 15, 8, 1, 2, 7, 0, 6, 13, 11, 5, 12,
		1, 9, 11, 10, 0, 8, 12, 4, 13, 3, 7, 15, 14, 5, 6, 2,
		4, 0, 5, 9, 7, 12, 2, 10, 14, 1, 3, 8, 11, 6, 15, 13}
	rmdRp = [80]int{
		5, 14, 7, 0, 9, 2, 11, 4, 13, 6, 15, 8, 1, 10, 3, 12,
		6, 11, 3, 7, 0, 13, 5, 10, 14, 15, 8, 12, 4, 9, 1, 2,
		15, 5, 1, 3, 7, 14, 6, 9, 11, 8, 12, 2, 10, 0, 4, 13,
		8, 6, 4, 1, 3, 11, 15, 0, 5, 12, 2, 13, 9, 7, 10, 14,
		12, 15, 10, 4, 1, 5, 8, 7, 6, 2, 13, 14, 0, 3, 9, 11}
	rmdS = [80]int{
		11, 14, 15, 12, 5, 8, 7, 9, 11, 13, 14, 15, 6, 7, 9, 8,
		7, 6, 8, 13, 11, 9, 7, 15, 7, 12, 15, 9, 11, 7, 13, 12,
		11, 13, 6, 7, 14, 9, 13, 15, 14, 8, 13, 6, 5, 12, 7, 5,
		11, 12, 14, 15, 14, 15, 9, 8, 9, 14, 5, 6, 8, 6, 5, 12,
		9, 15, 5, 11, 6, 8, 13, 12, 5, 12, 13, 14, 11, 8, 5, 6}
	rmdSp = [80]int{
		8, 9, 9, 11, 13, 15, 15, 5, 7, 7, 8, 11, 14, 14, 12, 6,
		9, 13, 15, 7, 12, 8, 9, 11, 7, 7, 12, 7, 6, 15, 13, 11,
		9, 7, 15, 11, 8, 6, 6, 14, 12, 13, 5, 14, 13, 13, 7, 5,
		15, 5, 8, 11, 14, 14, 6, 14, 6, 9, 12, 9, 12, 5, 15, 8,
		8, 5, 12, 9, 12, 5, 14, 6, 8, 13, 6, 5, 15, 13, 11, 11}
	rmdK  = [5]uint32{0x00000000, 0x5A827999, 0x6ED9EBA1, 0x8F1BBCDC, 0xA953FD4E}
	rmdKp = [5]uint32{0x50A28BE6, 0x5C4DD124, 0x6D703EF3, 0x7A6D76E9, 0x00000000}
)

func rmdF(j int, x, y, z uint32) uint32 {
	switch j / 16 {
	case 0:
		return x ^ y ^ z
	case 1:
		return (x & y) | (^x & z)
	case 2:
		return (x | ^y) ^ z
	case 3:
		return (x & z) | (y &^ z)
	}
	return x ^ (y | ^z)
}

// Ripemd160 of a whole message.
func Ripemd160(msg []byte) []byte {
	h := [5]uint32{0x67452301, 0xEFCDAB89, 0x98BADCFE, 0x10325476, 0xC3D2E1F0}
	m := append([]byte{}, msg...)
	m = append(m, 0x80)
	for len(m)%64 != 56 {
		m = append(m, 0)
	}
	var l [8]byte
	binary.LittleEndian.PutUint64(l[:], uint64(len(msg))*8)
	m = append(m, l[:]...)
	for off := 0; off < len(m); off += 64 {
		var x [16]uint32
		for i := range x {
			x[i] = binary.LittleEndian.Uint32(m[off+4*i:])
		}
		a, b, c, d, e := h[0], h[1], h[2], h[3], h[4]
		ap, bp, cp, dp, ep := a, b, c, d, e
		for j := 0; j < 80; j++ {
			t := bits.RotateLeft32(a+rmdF(j, b, c, d)+x[rmdR[j]]+rmdK[j/16], rmdS[j]) + e
			a, e, d, c, b = e, d, bits.RotateLeft32(c, 10), b, t
			t = bits.RotateLeft32(ap+rmdF(79-j, bp, cp, dp)+x[rmdRp[j]]+rmdKp[j/16], rmdSp[j]) + ep
			ap, ep, dp, cp, bp = ep, dp, bits.RotateLeft32(cp, 10), bp, t
		}
		t := h[1] + c + dp
		h[1] = h[2] + d + ep
		h[2] = h[3] + e + ap
		h[3] = h[4] + a + bp
		h[4] = h[0] + b + cp
		h[0] = t
	}
	out := make([]byte, 20)
	for i, v := range h {
		binary.LittleEndian.PutUint32(out[4*i:], v)
	}
	return out
}

// Hash160 = RIPEMD-160(SHA-256(x))
func Hash160(b []byte) []byte { return Ripemd160(Sha256(b)) }

// ---- scrypt (RFC 7914)

func salsa208(b *[16]uint32) {
	x := *b
	for i := 0; i < 8; i += 2 {
		x[4] ^= bits.RotateLeft32(x[0]+x[12], 7)
		x[8] ^= bits.RotateLeft32(x[4]+x[0], 9)
		x[12] ^= bits.RotateLeft32(x[8]+x[4], 13)
		x[0] ^= bits.RotateLeft32(x[12]+x[8], 18)
		x[9] ^= bits.RotateLeft32(x[5]+x[1], 7)
		x[13] ^= bits.RotateLeft32(x[9]+x[5], 9)
		x[1] ^= bits.RotateLeft32(x[13]+x[9], 13)
		x[5] ^= bits.RotateLeft32(x[1]+x[13], 18)
		x[14] ^= bits.RotateLeft32(x[10]+x[6], 7)
		x[2] ^= bits.RotateLeft32(x[14]+x[10], 9)
		x[6] ^= bits.RotateLeft32(x[2]+x[14], 13)
		x[10] ^= bits.RotateLeft32(x[6]+x[2], 18)
		x[3] ^= bits.RotateLeft32(x[15]+x[11], 7)
		x[7] ^= bits.RotateLeft32(x[3]+x[15], 9)
		x[11] ^= bits.RotateLeft32(x[7]+x[3], 13)
		x[15] ^= bits.RotateLeft32(x[11]+x[7], 18)
		x[1] ^= bits.RotateLeft32(x[0]+x[3], 7)
		x[2] ^= bits.RotateLeft32(x[1]+x[0], 9)
		x[3] ^= bits.RotateLeft32(x[2]+x[1], 13)
		x[0] ^= bits.RotateLeft32(x[3]+x[2], 18)
		x[6] ^= bits.RotateLeft32(x[5]+x[4], 7)
		x[7] ^= bits.RotateLeft32(x[6]+x[5], 9)
		x[4] ^= bits.RotateLeft32(x[7]+x[6], 13)
		x[5] ^= bits.RotateLeft32(x[4]+x[7], 18)
		x[11] ^= bits.RotateLeft32(x[10]+x[9], 7)
		x[8] ^= bits.RotateLeft32(x[11]+x[10], 9)
		x[9] ^= bits.RotateLeft32(x[8]+x[11], 13)
		x[10] ^= bits.RotateLeft32(x[9]+x[8], 18)
		x[12] ^= bits.RotateLeft32(x[15]+x[14], 7)
		x[13] ^= bits.RotateLeft32(x[12]+x[15], 9)
		x[14] ^= bits.RotateLeft32(x[13]+x[12], 13)
		x[15] ^= bits.RotateLeft32(x[14]+x[13], 18)
	}
	for i := range x {
		b[i] += x[i]
	}
}

// blockMix on 2r blocks of 16 words
func blockMix(b [][16]uint32) [][16]uint32 {
	n := len(b)
	x := b[n-1]
	y := make([][16]uint32, n)
	for i := 0; i < n; i++ {
		for k := range x {
			x[k] ^= b[i][k]
		}
		salsa208(&x)
		y[i] = x
	}
	out := make([][16]uint32, n)
	for i := 0; i < n/2; i++ {
		out[i] = y[2*i]
		out[n/2+i] = y[2*i+1]
	}
	return out
}

func roMix(blk []byte, r, n int) []byte {
	x := make([][16]uint32, 2*r)
	for i := range x {
		for k := 0; k < 16; k++ {
			x[i][k] = binary.LittleEndian.Uint32(blk[64*i+4*k:])
		}
	}
	v := make([][][16]uint32, n)
	for i := 0; i < n; i++ {
		v[i] = x
		x = blockMix(x)
	}
	for i := 0; i < n; i++ {
		last := x[2*r-1]
		j := int((uint64(last[0]) | uint64(last[1])<<32) % uint64(n))
		t := make([][16]uint32, 2*r)
		for a := range t {
			for k := 0; k < 16; k++ {
				t[a][k] = x[a][k] ^ v[j][a][k]
			}
		}
		x = blockMix(t)
	}
	out := make([]byte, len(blk))
	for i := range x {
		for k := 0; k < 16; k++ {
			binary.LittleEndian.PutUint32(out[64*i+4*k:], x[i][k])
		}
	}
	return out
}

// Scrypt is RFC 7914 scrypt(P, S, N, r, p, dkLen); N must be a power of two > 1.
func Scrypt(password, salt []byte, n, r, p, dkLen int) []byte {
	b := Pbkdf2(sha256.New, password, salt, 1, p*128*r)
	for i := 0; i < p; i++ {
		copy(b[i*128*r:], roMix(b[i*128*r:(i+1)*128*r], r, n))
	}
	return Pbkdf2(sha256.New, password, b, 1, dkLen)
}
