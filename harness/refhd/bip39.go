package refhd

import (
	"crypto/sha512"
	"errors"
	"strings"
)

// MnemonicIndices is BIP39 "Generating the mnemonic": ENT bits of entropy (128..256, multiple of 32),
// CS = ENT/32 bits of SHA-256(entropy) appended, split into groups of 11 bits.
func MnemonicIndices(entropy []byte) ([]int, error) {
	ent := len(entropy) * 8
	if ent < 128 || ent > 256 || ent%32 != 0 {
		return nil, errors.New("entropy must be 128..256 bits, a multiple of 32")
	}
	cs := ent / 32
	h := Sha256(entropy)
	bit := func(i int) int {
		if i < ent {
			return int(entropy[i/8]>>(7-uint(i%8))) & 1
		}
		j := i - ent
		return int(h[j/8]>>(7-uint(j%8))) & 1
	}
	n := (ent + cs) / 11
	out := make([]int, n)
	for w := 0; w < n; w++ {
		v := 0
		for b := 0; b < 11; b++ {
			v = v<<1 | bit(w*11+b)
		}
		out[w] = v
	}
	return out, nil
}

func Mnemonic(entropy []byte) (string, error) {
	idx, err := MnemonicIndices(entropy)
	if err != nil {
		return "", err
	}
	w := make([]string, len(idx))
	for i, v := range idx {
		w[i] = Words[v]
	}
	return strings.Join(w, " "), nil
}

// MnemonicEntropy is the inverse: words -> entropy, checking the word count, the words and the checksum.
func MnemonicEntropy(m string) ([]byte, error) {
	ws := strings.Fields(m)
	if len(ws) < 12 || len(ws) > 24 || len(ws)%3 != 0 {
		return nil, errors.New("word count must be 12, 15, 18, 21 or 24")
	}
	var bitsv []byte
	for _, w := range ws {
		k := -1
		for i, x := range Words {
			if x == w {
				k = i
				break
			}
		}
		if k < 0 {
			return nil, errors.New("unknown word " + w)
		}
		for b := 10; b >= 0; b-- {
			bitsv = append(bitsv, byte(k>>uint(b))&1)
		}
	}
	ent := len(ws) * 11 * 32 / 33
	e := make([]byte, ent/8)
	for i := 0; i < ent; i++ {
		e[i/8] |= bitsv[i] << (7 - uint(i%8))
	}
	h := Sha256(e)
	for j := 0; j < ent/32; j++ {
		if bitsv[ent+j] != (h[j/8]>>(7-uint(j%8)))&1 {
			return nil, errors.New("checksum mismatch")
		}
	}
	return e, nil
}

// MnemonicSeed is BIP39 "From mnemonic to seed": PBKDF2-HMAC-SHA512(mnemonic, "mnemonic" + passphrase, 2048, 64).
// (NFKD normalisation is the identity on the ASCII strings used here.)
func MnemonicSeed(mnemonic, passphrase string) []byte {
	return Pbkdf2(sha512.New, []byte(mnemonic), []byte("mnemonic"+passphrase), 2048, 64)
}
