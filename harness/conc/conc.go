// Package conc: concretiser shared by the chain-level drivers (Ledger, ChainStore, UtxoSave, Mempool,
// BlockRules): turns the abstract blocks / transactions of a TLA+ scenario into real Bitcoin blocks on a
// real lib/chain.Chain with regtest-like parameters, and projects the real state back to abstract ids.
package conc

import (
	"bytes"
	"crypto/sha256"
	"encoding/binary"
	"encoding/json"
	"fmt"
	"io"
	"math/big"
	"os"
	"path/filepath"
	"sort"
	"strconv"
	"time"

	"github.com/piotrnar/gocoin/lib/btc"
	"github.com/piotrnar/gocoin/lib/chain"
	"github.com/piotrnar/gocoin/lib/script"
	"github.com/piotrnar/gocoin/lib/utxo"
)

// ------------------------------------------------------------------ abstract scenario (as exported by TLC)

type Amt struct {
	H int64 `json:"h"`
	U int64 `json:"u"`
	E int64 `json:"e"`
}

func (a Amt) Sat() uint64 { return uint64(a.H)*10000000000000000 + uint64(a.U)*100000000 + uint64(a.E) }

type OutDef struct {
	Amt  Amt `json:"amt"`
	Addr int `json:"addr"`
	St   int `json:"st"`
}

type InDef struct {
	Tx   int  `json:"tx"`
	Vout int  `json:"vout"` // 1-based, as in the specification
	Ok   bool `json:"ok"`
	Rl   int  `json:"rl"`
}

type TxDef struct {
	Ins  []InDef  `json:"ins"`
	Outs []OutDef `json:"outs"`
	Ver  int      `json:"ver"`
	Sops int      `json:"sops"`
}

type BlkDef struct {
	Parent int      `json:"parent"`
	Txs    []int    `json:"txs"`
	Cbouts []OutDef `json:"cbouts"`
	Dt     int      `json:"dt"`   // seconds after the parent's timestamp (0 = 600 + block id)
	Work   int      `json:"work"` // proof of work in units of the minimum difficulty (0 = 1); checked against the bits the retarget rule yields
}

// Scenario: TLC prints functions with a 1..n domain as arrays and others as objects keyed by decimal strings.
type Scenario struct {
	Blk   IntMap[BlkDef] `json:"blk"`
	Tx    IntMap[TxDef]  `json:"tx"`
	BaseH int            `json:"baseh"`
}

type IntMap[T any] map[int]T

func (m *IntMap[T]) UnmarshalJSON(b []byte) error {
	*m = IntMap[T]{}
	b = bytes.TrimSpace(b)
	if len(b) > 0 && b[0] == '[' {
		var arr []T
		if err := json.Unmarshal(b, &arr); err != nil {
			return err
		}
		for i, v := range arr {
			(*m)[i+1] = v
		}
		return nil
	}
	var obj map[string]T
	if err := json.Unmarshal(b, &obj); err != nil {
		return err
	}
	for k, v := range obj {
		n, err := strconv.Atoi(k)
		if err != nil {
			return err
		}
		(*m)[n] = v
	}
	return nil
}

const (
	opDROP        = 0x75
	opDEPTH       = 0x74
	opDUP         = 0x76
	opEQUALVERIFY = 0x88
)

const CbBase = 100000 // tx id of block b's coinbase = CbBase + b (as in Ledger.tla)

// script types (st)
const (
	StP2SH     = 1 // P2SH of <tag> DROP 1
	StP2WSH    = 2 // P2WSH of <tag> DROP 1
	StBare     = 3 // <tag> DROP DEPTH 0 EQUAL   (non-standard)
	StP2PKH    = 4
	StP2WPKH   = 5
	StP2TR     = 6  // never spent by a scenario
	StSigops   = 7  // addr x OP_CHECKSIG, zero value, never spent
	StRetSig   = 8  // OP_RETURN followed by addr x OP_CHECKSIG (the legacy sigop count does not stop at OP_RETURN)
	StP2SHSig  = 9  // P2SH whose redeem script holds addr x OP_CHECKSIG in a branch that is never executed
	StP2WSHSig = 10 // P2WSH with the same script as its witness script
	StP2SHWSig = 11 // the same witness program wrapped in P2SH
)

// ------------------------------------------------------------------ the world: real objects for every abstract id

type World struct {
	Sc          Scenario
	Genesis     *btc.Uint256
	GenesisTime uint32
	BaseDir     string // data directory holding the closed base chain
	Compress    bool   // UTXO records in the compressed format
	Pad         int    // bytes of OP_RETURN padding in every base coinbase

	baseBlocks  [][]byte        // raw blocks of heights 1..BaseH
	baseTx      map[int]*btc.Tx // base coinbases by height
	txs         map[int]*btc.Tx
	blocks      map[int][]byte
	blkHash     map[int]*btc.Uint256
	TxID        map[[32]byte]int // real txid -> abstract tx id
	BlkID       map[[32]byte]int // real block hash -> abstract block id (0 = base tip, -h = base block of height h)
	baseTipHash *btc.Uint256
	baseTipTime uint32
	baseTimes   []uint32       // timestamps by height, 0 = genesis
	blkTime     map[int]uint32 // scenario blocks
	blkBits     map[int]uint32
}

func tag(addr int) []byte { return []byte{0xad, byte(addr >> 16), byte(addr >> 8), byte(addr)} }

func innerScript(addr int) []byte {
	return append(append([]byte{4}, tag(addr)...), opDROP, btc.OP_1)
}

// sigScript is an anyone-can-spend script that holds k OP_CHECKSIG in its dead branch (k <= 190: the limit of 201
// counted operations per script applies to dead branches as well).
func sigScript(k int) []byte {
	s := append(append([]byte{4}, tag(k)...), opDROP, btc.OP_1, 0x63 /*OP_IF*/, btc.OP_1, 0x67 /*OP_ELSE*/)
	s = append(s, bytes.Repeat([]byte{btc.OP_CHECKSIG}, k)...)
	return append(s, 0x68 /*OP_ENDIF*/)
}

func privKey(addr int) []byte {
	h := sha256.Sum256([]byte(fmt.Sprint("vfkey", addr)))
	return h[:]
}

func sha2(b []byte) []byte { h := sha256.Sum256(b); return h[:] }

func hash160(b []byte) []byte {
	var out [20]byte
	btc.RimpHash(b, out[:])
	return out[:]
}

// PkScript returns the output script of (addr, st).
func PkScript(addr, st int) []byte {
	switch st {
	case StP2SH:
		return append(append([]byte{btc.OP_HASH160, 20}, hash160(innerScript(addr))...), btc.OP_EQUAL)
	case StP2WSH:
		return append([]byte{0, 32}, sha2(innerScript(addr))...)
	case StBare:
		return append(append([]byte{4}, tag(addr)...), opDROP, opDEPTH, btc.OP_0, btc.OP_EQUAL)
	case StP2PKH:
		pub := btc.PublicFromPrivate(privKey(addr), true)
		return append(append([]byte{opDUP, btc.OP_HASH160, 20}, hash160(pub)...), opEQUALVERIFY, btc.OP_CHECKSIG)
	case StP2WPKH:
		pub := btc.PublicFromPrivate(privKey(addr), true)
		return append([]byte{0, 20}, hash160(pub)...)
	case StP2TR:
		return append([]byte{btc.OP_1, 32}, sha2([]byte(fmt.Sprint("vftap", addr)))...)
	case StP2SHSig:
		return append(append([]byte{btc.OP_HASH160, 20}, hash160(sigScript(addr))...), btc.OP_EQUAL)
	case StP2WSHSig:
		return append([]byte{0, 32}, sha2(sigScript(addr))...)
	case StP2SHWSig:
		return append(append([]byte{btc.OP_HASH160, 20}, hash160(append([]byte{0, 32}, sha2(sigScript(addr))...))...), btc.OP_EQUAL)
	case StSigops:
		return bytes.Repeat([]byte{btc.OP_CHECKSIG}, addr)
	case StRetSig:
		return append([]byte{0x6a}, bytes.Repeat([]byte{btc.OP_CHECKSIG}, addr)...)
	}
	panic(fmt.Sprint("unknown script type ", st))
}

func pushData(d []byte) []byte {
	if len(d) < 76 {
		return append([]byte{byte(len(d))}, d...)
	}
	if len(d) < 256 {
		return append([]byte{btc.OP_PUSHDATA1, byte(len(d))}, d...)
	}
	return append([]byte{btc.OP_PUSHDATA2, byte(len(d)), byte(len(d) >> 8)}, d...)
}

// OutsOf returns the abstract outputs of abstract tx id t (base coinbase, block coinbase or scenario tx).
func (w *World) OutsOf(t int) []OutDef {
	if t > CbBase {
		return w.Sc.Blk[t-CbBase].Cbouts
	}
	if t >= 1 && t <= w.Sc.BaseH {
		return []OutDef{{Amt: Amt{U: 50}, Addr: 0, St: StP2SH}}
	}
	return w.Sc.Tx[t].Outs
}

func (w *World) realTxid(t int) [32]byte {
	if t >= 1 && t <= w.Sc.BaseH {
		return w.baseTx[t].Hash.Hash
	}
	if tx, ok := w.txs[t]; ok {
		return tx.Hash.Hash
	}
	var h [32]byte // an outpoint that never existed
	copy(h[:], sha2([]byte(fmt.Sprint("vfmissing", t))))
	return h
}

func finishTx(tx *btc.Tx) *btc.Tx {
	raw := tx.SerializeNew()
	ntx, _ := btc.NewTx(raw)
	if ntx == nil {
		panic("concretiser produced an undecodable transaction")
	}
	ntx.SetHash(raw)
	return ntx
}

// buildTx concretises scenario transaction t (all transactions it refers to must have been built already).
func (w *World) buildTx(t int) *btc.Tx {
	d := w.Sc.Tx[t]
	tx := &btc.Tx{Version: uint32(d.Ver), Lock_time: 0}
	type spent struct {
		known bool
		out   OutDef
	}
	sp := make([]spent, len(d.Ins))
	for i, in := range d.Ins {
		ti := &btc.TxIn{Sequence: 0xffffffff}
		ti.Input.Hash = w.realTxid(in.Tx)
		ti.Input.Vout = uint32(in.Vout - 1)
		if in.Rl > 0 {
			ti.Sequence = uint32(in.Rl)
		}
		tx.TxIn = append(tx.TxIn, ti)
		if _, defined := w.Sc.Tx[in.Tx]; defined || in.Tx > CbBase || (in.Tx >= 1 && in.Tx <= w.Sc.BaseH) {
			outs := w.OutsOf(in.Tx)
			if in.Vout >= 1 && in.Vout <= len(outs) {
				sp[i] = spent{true, outs[in.Vout-1]}
			}
		}
	}
	for _, o := range d.Outs {
		tx.TxOut = append(tx.TxOut, &btc.TxOut{Value: o.Amt.Sat(), Pk_script: PkScript(o.Addr, o.St)})
	}
	// unlocking data
	anyWit := false
	for i, in := range d.Ins {
		o := sp[i].out
		if !sp[i].known {
			tx.TxIn[i].ScriptSig = pushData(innerScript(0))
			continue
		}
		addr := o.Addr
		if !in.Ok {
			addr += 7777 // the wrong script / the wrong key
		}
		switch o.St {
		case StP2SH:
			tx.TxIn[i].ScriptSig = pushData(innerScript(addr))
		case StP2WSH, StP2WSHSig:
			anyWit = true
		case StP2SHWSig:
			anyWit = true
			if in.Ok {
				tx.TxIn[i].ScriptSig = pushData(append([]byte{0, 32}, sha2(sigScript(o.Addr))...))
			} else {
				tx.TxIn[i].ScriptSig = pushData(append([]byte{0, 32}, sha2(innerScript(addr))...))
			}
		case StP2SHSig:
			if in.Ok {
				tx.TxIn[i].ScriptSig = pushData(sigScript(o.Addr))
			} else {
				tx.TxIn[i].ScriptSig = pushData(innerScript(addr))
			}
		case StBare:
			if !in.Ok {
				tx.TxIn[i].ScriptSig = []byte{btc.OP_1}
			}
		case StP2PKH, StP2WPKH:
			if o.St == StP2WPKH {
				anyWit = true
			}
		default:
			panic(fmt.Sprint("scenario spends an output of unspendable type ", o.St))
		}
	}
	if anyWit {
		tx.SegWit = make([][][]byte, len(tx.TxIn))
		for i := range tx.SegWit {
			tx.SegWit[i] = [][]byte{}
		}
	}
	tx.AllocVerVars()
	for i, in := range d.Ins {
		o := sp[i].out
		if !sp[i].known {
			continue
		}
		addr := o.Addr
		if !in.Ok {
			addr += 7777
		}
		switch o.St {
		case StP2WSH:
			tx.SegWit[i] = [][]byte{innerScript(addr)}
		case StP2WSHSig, StP2SHWSig:
			if in.Ok {
				tx.SegWit[i] = [][]byte{sigScript(o.Addr)}
			} else {
				tx.SegWit[i] = [][]byte{innerScript(addr)}
			}
		case StP2PKH:
			pub := btc.PublicFromPrivate(privKey(o.Addr), true)
			if e := tx.Sign(i, PkScript(o.Addr, o.St), 1, pub, privKey(addr)); e != nil {
				panic(e)
			}
		case StP2WPKH:
			pub := btc.PublicFromPrivate(privKey(o.Addr), true)
			sc := append(append([]byte{opDUP, btc.OP_HASH160, 20}, hash160(pub)...), opEQUALVERIFY, btc.OP_CHECKSIG)
			if e := tx.SignWitness(i, sc, o.Amt.Sat(), 1, pub, privKey(addr)); e != nil {
				panic(e)
			}
		}
	}
	return finishTx(tx)
}

func coinbaseTx(height uint32, extra int, outs []OutDef, commit []byte) *btc.Tx {
	return coinbaseTxPad(height, extra, outs, commit, 0)
}

func coinbaseTxPad(height uint32, extra int, outs []OutDef, commit []byte, pad int) *btc.Tx {
	tx := &btc.Tx{Version: 2}
	ti := &btc.TxIn{Sequence: 0xffffffff}
	ti.Input.Vout = 0xffffffff
	ti.ScriptSig = append(script.UintToScript(height), pushData([]byte{byte(extra >> 16), byte(extra >> 8), byte(extra), 0x76, 0x66})...)
	tx.TxIn = []*btc.TxIn{ti}
	for _, o := range outs {
		tx.TxOut = append(tx.TxOut, &btc.TxOut{Value: o.Amt.Sat(), Pk_script: PkScript(o.Addr, o.St)})
	}
	if pad > 0 {
		tx.TxOut = append(tx.TxOut, &btc.TxOut{Value: 0, Pk_script: append([]byte{0x6a}, pushData(bytes.Repeat([]byte{byte(height)}, pad))...)})
	}
	if commit != nil {
		tx.TxOut = append(tx.TxOut, &btc.TxOut{Value: 0, Pk_script: append([]byte{0x6a, 0x24, 0xaa, 0x21, 0xa9, 0xed}, commit...)})
		tx.SegWit = [][][]byte{{make([]byte, 32)}}
	}
	return finishTx(tx)
}

func dsha(b []byte) [32]byte {
	a := sha256.Sum256(b)
	return sha256.Sum256(a[:])
}

// Merkle computes the Bitcoin merkle root of the given leaves (own implementation, stdlib only).
func Merkle(leaves [][32]byte) [32]byte {
	if len(leaves) == 0 {
		return [32]byte{}
	}
	lv := append([][32]byte{}, leaves...)
	for len(lv) > 1 {
		if len(lv)%2 == 1 {
			lv = append(lv, lv[len(lv)-1])
		}
		nx := make([][32]byte, 0, len(lv)/2)
		for i := 0; i < len(lv); i += 2 {
			nx = append(nx, dsha(append(append([]byte{}, lv[i][:]...), lv[i+1][:]...)))
		}
		lv = nx
	}
	return lv[0]
}

const MinBits = 0x207fffff

// MakeBlock assembles and mines (at minimum difficulty) a block. txs[0] must be the coinbase.
func MakeBlock(version uint32, parent [32]byte, ts uint32, bits uint32, txs []*btc.Tx) []byte {
	leaves := make([][32]byte, len(txs))
	for i, t := range txs {
		leaves[i] = t.Hash.Hash
	}
	root := Merkle(leaves)
	hdr := make([]byte, 80)
	binary.LittleEndian.PutUint32(hdr[0:4], version)
	copy(hdr[4:36], parent[:])
	copy(hdr[36:68], root[:])
	binary.LittleEndian.PutUint32(hdr[68:72], ts)
	binary.LittleEndian.PutUint32(hdr[72:76], bits)
	for n := uint32(0); ; n++ {
		binary.LittleEndian.PutUint32(hdr[76:80], n)
		if btc.CheckProofOfWork(btc.NewSha2Hash(hdr), bits) {
			break
		}
	}
	buf := new(bytes.Buffer)
	buf.Write(hdr)
	btc.WriteVlen(buf, uint64(len(txs)))
	for _, t := range txs {
		buf.Write(t.Raw)
	}
	return buf.Bytes()
}

// WitnessCommitment of a block whose non-coinbase transactions are txs (nonce = 32 zero bytes).
func WitnessCommitment(txs []*btc.Tx) []byte {
	leaves := make([][32]byte, len(txs)+1)
	for i, t := range txs {
		leaves[i+1] = t.WTxID().Hash
	}
	root := Merkle(leaves)
	c := dsha(append(root[:], make([]byte, 32)...))
	return c[:]
}

// ------------------------------------------------------------------ real chain handling

type Node struct {
	W   *World
	Dir string
	Ch  *chain.Chain
}

var GenesisHash = func() *btc.Uint256 {
	h := sha256.Sum256([]byte("verif genesis"))
	h[0], h[1] = 0x43, 0xf0 // "testnet4" for lib/chain: every soft fork active from height 1
	return btc.NewUint256(h[:])
}()

func setRegtest(ch *chain.Chain, genesisTime uint32) {
	ch.Consensus.MaxPOWBits = MinBits
	ch.Consensus.MaxPOWValue = new(big.Int).Lsh(big.NewInt(0x7fffff), 8*29)
	ch.Consensus.GensisTimestamp = genesisTime
	ch.Consensus.BIP34Height = 1
	ch.Consensus.BIP65Height = 1
	ch.Consensus.BIP66Height = 1
	ch.Consensus.Enforce_CSV = 1
	ch.Consensus.Enforce_SEGWIT = 1
	ch.Consensus.Enforce_Taproot = 1
	ch.RebuildGenesisHeader()
}

// OpenNode opens (or creates) the data directory with the world's parameters.
func (w *World) OpenNode(dir string, opts *chain.NewChanOpts) *Node {
	if opts == nil {
		opts = &chain.NewChanOpts{}
	}
	opts.CompressUTXO = w.Compress
	ch := chain.NewChainExt(dir+string(os.PathSeparator), GenesisHash, false, opts, &chain.BlockDBOpts{MaxCachedBlocks: 50})
	setRegtest(ch, w.GenesisTime)
	return &Node{W: w, Dir: dir, Ch: ch}
}

func (n *Node) Close() {
	n.Ch.Close()
}

// Deliver hands a raw block to the node the way the client does: CheckBlock then AcceptBlock.
// accepted: no error from either; later: CheckBlock said "maybe later" (parent unknown).
func (n *Node) Deliver(raw []byte) (accepted, later bool, err error) {
	bl, e := btc.NewBlock(raw)
	if e != nil {
		return false, false, e
	}
	n.Ch.BlockIndexAccess.Lock()
	_, later, e = n.Ch.CheckBlock(bl)
	n.Ch.BlockIndexAccess.Unlock()
	if e != nil {
		return false, later, e
	}
	e = n.Ch.AcceptBlock(bl)
	return e == nil, false, e
}

type UtxoEnt struct {
	Tx   int `json:"tx"`
	Vout int `json:"vout"` // 1-based
	H    int `json:"h"`
}

// DumpUtxo projects the real unspent-output set to abstract entries; problems (unknown txid, wrong amount,
// script, coinbase flag) are reported as strings.
func (n *Node) DumpUtxo() (ents []UtxoEnt, problems []string) {
	db := n.Ch.Unspent
	for i := range db.HashMap {
		db.MapMutex[i].RLock()
		for _, v := range db.HashMap[i] {
			rec := utxo.NewUtxoRec(*v)
			id, ok := n.W.TxID[rec.TxID]
			if !ok {
				problems = append(problems, "UTXO record of a transaction that was never delivered: "+btc.NewUint256(rec.TxID[:]).String())
				continue
			}
			outs := n.W.OutsOf(id)
			isCb := id > CbBase || id <= n.W.Sc.BaseH
			if rec.Coinbase != isCb {
				problems = append(problems, fmt.Sprintf("tx %d: coinbase flag %v", id, rec.Coinbase))
			}
			for vo, o := range rec.Outs {
				if o == nil {
					continue
				}
				if vo >= len(outs) {
					if isCb && len(o.PKScr) > 0 && o.PKScr[0] == 0x6a && o.Value == 0 {
						continue // witness commitment / padding output of a coinbase: not part of the abstract model
					}
					problems = append(problems, fmt.Sprintf("tx %d has no output %d", id, vo+1))
					continue
				}
				if o.Value != outs[vo].Amt.Sat() || !bytes.Equal(o.PKScr, PkScript(outs[vo].Addr, outs[vo].St)) {
					problems = append(problems, fmt.Sprintf("tx %d output %d: value %d / script %x differ from what was stored", id, vo+1, o.Value, o.PKScr))
				}
				ents = append(ents, UtxoEnt{Tx: id, Vout: vo + 1, H: int(rec.InBlock)})
			}
		}
		db.MapMutex[i].RUnlock()
	}
	sort.Slice(ents, func(a, b int) bool {
		if ents[a].Tx != ents[b].Tx {
			return ents[a].Tx < ents[b].Tx
		}
		return ents[a].Vout < ents[b].Vout
	})
	return
}

// Tip returns the abstract id of the active tip (0 = base tip, -h = base block at height h < BaseH).
func (n *Node) Tip() (int, bool) {
	id, ok := n.W.BlkID[n.Ch.LastBlock().BlockHash.Hash]
	return id, ok
}

// ------------------------------------------------------------------ world construction

// NewWorld builds the base chain (heights 1..BaseH) in dir/base, closes it, and concretises every
// transaction and block of the scenario.
func NewWorld(sc Scenario, dir string, compress bool) (*World, error) {
	return NewWorldExt(sc, dir, WorldOpts{Compress: compress})
}

// WorldOpts: GenesisTime fixes the timestamps (0 = now - 5 days) so that several processes can rebuild the
// same world; Pad adds a zero-value OP_RETURN output of that many bytes to every base coinbase (makes the
// UTXO snapshot larger than one 64 KiB save buffer); ReuseBase skips building the base chain when
// dir/base already holds it.
type WorldOpts struct {
	Compress    bool
	GenesisTime uint32
	Pad         int
	ReuseBase   bool
}

func NewWorldExt(sc Scenario, dir string, o WorldOpts) (*World, error) {
	compress := o.Compress
	btc.EcdsaSignWithRFC6979 = true // deterministic signatures: every process rebuilds identical transactions
	w := &World{Sc: sc, Genesis: GenesisHash, Compress: compress, Pad: o.Pad, baseTx: map[int]*btc.Tx{}, txs: map[int]*btc.Tx{}, blocks: map[int][]byte{},
		blkHash: map[int]*btc.Uint256{}, TxID: map[[32]byte]int{}, BlkID: map[[32]byte]int{}, blkTime: map[int]uint32{}, blkBits: map[int]uint32{}}
	w.GenesisTime = o.GenesisTime
	if w.GenesisTime == 0 {
		w.GenesisTime = uint32(time.Now().Unix()) - 5*24*3600
		if sc.BaseH >= 2000 {
			w.GenesisTime = uint32(time.Now().Unix()) - 21*24*3600 // room for a block stamped two weeks after the base tip
		}
	}
	w.BaseDir = filepath.Join(dir, "base")
	reuse := false
	if o.ReuseBase {
		if _, err := os.Stat(filepath.Join(w.BaseDir, "UTXO.db")); err == nil {
			reuse = true
		}
	}
	if !reuse {
		os.RemoveAll(w.BaseDir)
	}
	savedTarget := utxo.UTXO_WRITING_TIME_TARGET
	defer func() { utxo.UTXO_WRITING_TIME_TARGET = savedTarget }()
	utxo.UTXO_WRITING_TIME_TARGET = 0
	if compress {
		// lib/utxo switches its record codec (package-level function variables) only when it LOADS a
		// compressed snapshot; a fresh directory opened with CompressRecords=true would write plain
		// records under a "compressed" header. The driver therefore selects the codec itself.
		utxo.NewUtxoRecOwn = utxo.NewUtxoRecOwnC
		utxo.OneUtxoRec = utxo.OneUtxoRecC
		utxo.Serialize = utxo.SerializeC
	}
	var n *Node
	if !reuse {
		n = w.OpenNode(w.BaseDir, nil)
	}
	parent := GenesisHash.Hash
	ts := w.GenesisTime
	spacing := uint32(600)
	if sc.BaseH >= 2000 {
		spacing = 150 // retarget scenarios: a fast first period, so that the first retarget quadruples the difficulty
	}
	w.baseTimes = []uint32{w.GenesisTime}
	for h := 1; h <= sc.BaseH; h++ {
		ts += spacing
		w.baseTimes = append(w.baseTimes, ts)
		cb := coinbaseTxPad(uint32(h), h, []OutDef{{Amt: Amt{U: 50}, Addr: 0, St: StP2SH}}, nil, o.Pad)
		raw := MakeBlock(0x20000000, parent, ts, MinBits, []*btc.Tx{cb})
		if n != nil {
			acc, _, err := n.Deliver(raw)
			if !acc {
				return nil, fmt.Errorf("base block %d refused: %v", h, err)
			}
		}
		w.baseBlocks = append(w.baseBlocks, raw)
		w.baseTx[h] = cb
		w.TxID[cb.Hash.Hash] = h
		bh := btc.NewSha2Hash(raw[:80])
		parent = bh.Hash
		if h == sc.BaseH {
			w.BlkID[bh.Hash] = 0
			w.baseTipHash = bh
		} else {
			w.BlkID[bh.Hash] = -h
		}
	}
	w.baseTipTime = ts
	if n != nil {
		n.Close()
	}

	// transactions in dependency order
	var ids []int
	for id := range sc.Tx {
		ids = append(ids, id)
	}
	sort.Ints(ids)
	built := map[int]bool{}
	var build func(id int, depth int)
	build = func(id int, depth int) {
		if built[id] || depth > 64 {
			return
		}
		if _, ok := sc.Tx[id]; !ok {
			return
		}
		built[id] = true // (cycles cannot be concretised; the marker also stops them)
		for _, in := range sc.Tx[id].Ins {
			build(in.Tx, depth+1)
		}
		tx := w.buildTx(id)
		w.txs[id] = tx
		w.TxID[tx.Hash.Hash] = id
	}
	// coinbases of scenario blocks can be inputs of scenario transactions: build blocks and txs together
	var bids []int
	for id := range sc.Blk {
		bids = append(bids, id)
	}
	sort.Ints(bids)
	var buildBlk func(b int, depth int) error
	buildBlk = func(b int, depth int) error {
		if _, ok := w.blocks[b]; ok || depth > 64 {
			return nil
		}
		d := sc.Blk[b]
		var ph [32]byte
		var pt uint32
		var height uint32
		if d.Parent == 0 {
			ph, pt, height = w.baseTipHash.Hash, w.baseTipTime, uint32(sc.BaseH)+1
		} else {
			if err := buildBlk(d.Parent, depth+1); err != nil {
				return err
			}
			praw := w.blocks[d.Parent]
			ph = w.blkHash[d.Parent].Hash
			pt = binary.LittleEndian.Uint32(praw[68:72])
			height = w.heightOf(d.Parent) + 1
		}
		var txs []*btc.Tx
		for _, t := range d.Txs {
			build(t, 0)
			if w.txs[t] == nil {
				return fmt.Errorf("block %d refers to undefined tx %d", b, t)
			}
			txs = append(txs, w.txs[t])
		}
		cb := coinbaseTx(height, 1000+b, d.Cbouts, WitnessCommitment(txs))
		w.TxID[cb.Hash.Hash] = CbBase + b
		w.txs[CbBase+b] = cb
		bts := pt + 600 + uint32(b)
		if d.Dt != 0 {
			bts = pt + uint32(d.Dt)
		}
		bits := w.requiredBits(d.Parent, height, bts)
		work := d.Work
		if work == 0 {
			work = 1
		}
		if got := workOf(bits); got != work {
			return fmt.Errorf("scenario block %d: the retarget rule gives bits %08x = work %d, the scenario says %d", b, bits, got, work)
		}
		w.blkTime[b], w.blkBits[b] = bts, bits
		raw := MakeBlock(0x20000000, ph, bts, bits, append([]*btc.Tx{cb}, txs...))
		w.blocks[b] = raw
		w.blkHash[b] = btc.NewSha2Hash(raw[:80])
		w.BlkID[w.blkHash[b].Hash] = b
		return nil
	}
	for _, b := range bids {
		if err := buildBlk(b, 0); err != nil {
			return nil, err
		}
	}
	for _, id := range ids {
		build(id, 0)
	}
	return w, nil
}

var maxTarget = new(big.Int).Lsh(big.NewInt(0x7fffff), 8*29)

func workOf(bits uint32) int {
	t := btc.SetCompact(bits)
	if t.Sign() <= 0 {
		return 0
	}
	q := new(big.Int).Div(new(big.Int).Add(maxTarget, new(big.Int).Rsh(t, 1)), t)
	return int(q.Int64())
}

// timeAndBitsAt: timestamp and bits of the ancestor-or-self of scenario block b (0 = base tip) at the given height.
func (w *World) timeAndBitsAt(b int, height uint32) (uint32, uint32) {
	for b != 0 {
		if w.heightOf(b) == height {
			return w.blkTime[b], w.blkBits[b]
		}
		b = w.Sc.Blk[b].Parent
	}
	return w.baseTimes[height], MinBits
}

// requiredBits: the target a block of the given height and timestamp must carry on top of scenario block
// `parent` - the rule of lib/chain for a chain whose genesis hash marks it as testnet4 (2016-block periods,
// 20-minute rule, BIP94 base), written here independently over math/big.
func (w *World) requiredBits(parent int, height uint32, ts uint32) uint32 {
	const interval, span = 2016, 14 * 24 * 3600
	if height < 2 {
		return MinBits
	}
	pTime, pBits := w.timeAndBitsAt(parent, height-1)
	lastReal := func() uint32 { // walk back over min-difficulty blocks to the start of the period
		h := height - 1
		_, bits := pTime, pBits
		for h > 0 && h%interval != 0 && bits == MinBits {
			h--
			_, bits = w.timeAndBitsAt(parent, h)
		}
		return bits
	}
	if height%interval != 0 {
		if ts > pTime+1200 {
			return MinBits
		}
		return lastReal()
	}
	firstTime, _ := w.timeAndBitsAt(parent, height-interval)
	actual := int64(pTime) - int64(firstTime)
	if actual < span/4 {
		actual = span / 4
	}
	if actual > span*4 {
		actual = span * 4
	}
	t := btc.SetCompact(lastReal())
	t.Mul(t, big.NewInt(actual))
	t.Div(t, big.NewInt(span))
	if t.Cmp(maxTarget) > 0 {
		t = maxTarget
	}
	return btc.GetCompact(t)
}

func (w *World) heightOf(b int) uint32 {
	h := uint32(w.Sc.BaseH)
	for b != 0 {
		h++
		b = w.Sc.Blk[b].Parent
	}
	return h
}

func (w *World) HeightOf(b int) int { return int(w.heightOf(b)) }

func (w *World) Block(b int) []byte { return w.blocks[b] }

func (w *World) Tx(t int) *btc.Tx {
	if t >= 1 && t <= w.Sc.BaseH {
		return w.baseTx[t]
	}
	return w.txs[t]
}

func (w *World) BlockHash(b int) *btc.Uint256 {
	if b == 0 {
		return w.baseTipHash
	}
	return w.blkHash[b]
}

// CloneBase copies the closed base data directory to dst.
func (w *World) CloneBase(dst string) error {
	os.RemoveAll(dst)
	return CopyDir(w.BaseDir, dst)
}

func CopyDir(src, dst string) error {
	return filepath.Walk(src, func(p string, info os.FileInfo, err error) error {
		if err != nil {
			return err
		}
		rel, _ := filepath.Rel(src, p)
		t := filepath.Join(dst, rel)
		if info.IsDir() {
			return os.MkdirAll(t, 0770)
		}
		in, err := os.Open(p)
		if err != nil {
			return err
		}
		defer in.Close()
		out, err := os.Create(t)
		if err != nil {
			return err
		}
		defer out.Close()
		_, err = io.Copy(out, in)
		return err
	})
}
