// Helpers for the UtxoRec (C10) driver: a bare regtest-like node without a Scenario, whose blocks carry a
// coinbase with caller-chosen output scripts, so that records of chosen shapes reach the UTXO set through
// the library API (chain.NewChainExt with NewChanOpts.CompressUTXO, CheckBlock, AcceptBlock).
package conc

import (
	"os"

	"github.com/piotrnar/gocoin/lib/btc"
	"github.com/piotrnar/gocoin/lib/chain"
	"github.com/piotrnar/gocoin/lib/script"
)

// OpenBare opens (or creates) dir as a chain with the regtest-like parameters of this package.
// compress is handed to chain.NewChanOpts.CompressUTXO exactly as client/init.go does.
func OpenBare(dir string, compress bool, genesisTime uint32) *Node {
	opts := &chain.NewChanOpts{CompressUTXO: compress}
	ch := chain.NewChainExt(dir+string(os.PathSeparator), GenesisHash, false, opts, &chain.BlockDBOpts{MaxCachedBlocks: 50})
	setRegtest(ch, genesisTime)
	return &Node{Dir: dir, Ch: ch}
}

// MineOuts builds, mines and delivers the next block on the active tip: a single coinbase transaction
// whose outputs are outs (plus nothing else: no witness commitment is needed without segwit transactions).
// It returns the coinbase txid.
func (n *Node) MineOuts(ts uint32, salt int, outs []*btc.TxOut) (txid [32]byte, err error) {
	last := n.Ch.LastBlock()
	height := last.Height + 1
	tx := &btc.Tx{Version: 2}
	ti := &btc.TxIn{Sequence: 0xffffffff}
	ti.Input.Vout = 0xffffffff
	ti.ScriptSig = append(script.UintToScript(height), pushData([]byte{byte(salt >> 16), byte(salt >> 8), byte(salt), 0x10, 0xc1})...)
	tx.TxIn = []*btc.TxIn{ti}
	for _, o := range outs {
		tx.TxOut = append(tx.TxOut, &btc.TxOut{Value: o.Value, Pk_script: append([]byte(nil), o.Pk_script...)})
	}
	tx = finishTx(tx)
	raw := MakeBlock(0x20000000, last.BlockHash.Hash, ts, MinBits, []*btc.Tx{tx})
	ok, _, e := n.Deliver(raw)
	if e != nil {
		return tx.Hash.Hash, e
	}
	if !ok {
		return tx.Hash.Hash, os.ErrInvalid
	}
	return tx.Hash.Hash, nil
}
