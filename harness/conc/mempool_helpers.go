// Helpers for the Mempool (C12) driver: blocks are assembled at run time (from the pool's listing or from a
// chosen list of scenario transactions), so they cannot be part of the static Scenario of conc.go.
package conc

import (
	"bytes"
	"fmt"

	"github.com/piotrnar/gocoin/lib/btc"
)

// BaseTip returns hash and timestamp of the tip of the base chain (height BaseH).
func (w *World) BaseTip() (hash [32]byte, ts uint32) { return w.baseTipHash.Hash, w.baseTipTime }

// SatAmt converts satoshi to the specification's amount triple.
func SatAmt(sat uint64) Amt {
	return Amt{H: int64(sat >> 62), U: int64((sat & (1<<62 - 1)) / 100000000), E: int64((sat & (1<<62 - 1)) % 100000000)}
}

// BuildBlock assembles and mines (minimum difficulty) a block at the given height on the given parent:
// one coinbase paying cbSat to the anyone-can-spend P2SH script of address 0 (plus the witness commitment)
// followed by txs. salt makes competing blocks with the same content distinct.
func BuildBlock(height uint32, parent [32]byte, ts uint32, salt int, cbSat uint64, txs []*btc.Tx) (raw []byte, cb *btc.Tx) {
	cb = coinbaseTx(height, 500000+salt, []OutDef{{Amt: SatAmt(cbSat), Addr: 0, St: StP2SH}}, WitnessCommitment(txs))
	raw = MakeBlock(0x20000000, parent, ts, MinBits, append([]*btc.Tx{cb}, txs...))
	return
}

// RegisterTx adds a transaction built outside NewWorld (coinbases of run-time blocks, bulky transactions)
// to the id tables. def may be nil for coinbases.
func (w *World) RegisterTx(id int, tx *btc.Tx, def *TxDef) {
	w.txs[id] = tx
	w.TxID[tx.Hash.Hash] = id
	if def != nil {
		w.Sc.Tx[id] = *def
	}
}

// BulkyTx builds a transaction spending the single input `in` (an anyone-can-spend P2SH output of address
// addr worth inSat) with two outputs: outSat to the P2SH script of address outAddr, and a zero-value
// unspendable data output (OP_RETURN followed by `bulk` zero bytes) that only makes the transaction big.
func (w *World) BulkyTx(in InDef, inAddr int, outSat uint64, outAddr int, bulk int) *btc.Tx {
	tx := &btc.Tx{Version: 2}
	ti := &btc.TxIn{Sequence: 0xffffffff}
	ti.Input.Hash = w.realTxid(in.Tx)
	ti.Input.Vout = uint32(in.Vout - 1)
	ti.ScriptSig = pushData(innerScript(inAddr))
	tx.TxIn = []*btc.TxIn{ti}
	tx.TxOut = append(tx.TxOut, &btc.TxOut{Value: outSat, Pk_script: PkScript(outAddr, StP2SH)})
	tx.TxOut = append(tx.TxOut, &btc.TxOut{Value: 0, Pk_script: append([]byte{0x6a}, bytes.Repeat([]byte{0}, bulk)...)})
	return finishTx(tx)
}

// FreshTx re-parses the raw bytes of scenario transaction t: the pool keeps and mutates the object it is
// handed (as the network layer does, every submission gets its own object).
func (w *World) FreshTx(t int) *btc.Tx {
	src := w.Tx(t)
	if src == nil {
		panic(fmt.Sprint("no such scenario transaction ", t))
	}
	raw := append([]byte(nil), src.Raw...)
	tx, n := btc.NewTx(raw)
	if tx == nil || n != len(raw) {
		panic("FreshTx: undecodable")
	}
	tx.SetHash(raw)
	return tx
}

// TxIds lists the ids of all scenario transactions.
func (w *World) TxIds() (ids []int) {
	for id := range w.Sc.Tx {
		ids = append(ids, id)
	}
	return
}
