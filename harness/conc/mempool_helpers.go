// Helpers for the Mempool (C12) driver: blocks are assembled at run time (from the pool's listing or from a
// chosen list of scenario transactions), so they cannot be part of the static Scenario of conc.go.
package conc

import (
	"bytes"
	"crypto/sha256"
	"fmt"

	"github.com/piotrnar/gocoin/lib/btc"
)

// BaseTip returns hash and timestamp of the tip of the base chain (height BaseH).
func (w *World) BaseTip() (hash [32]byte, ts uint32) { return w.baseTipHash.Hash, w.baseTipTime }

// SatAmt converts satoshi to the specification's amount triple.
func SatAmt(sat uint64) Amt {
	return Amt{H: int64(sat >> 62), U: int64((sat & (1<<62 - 1)) / 100000000), E: int64((sat & (1<<62 - 1)) % 100000000)}
}

// BuildBlock assembles and mines (minimum difficulty) a block at the given height on the given parent:
// one coinbase paying cbSat to the anyone-can-spend P2SH script of address 0 (plus the witness commitment)
// followed by txs. salt makes competing blocks with the same content distinct.
func BuildBlock(height uint32, parent [32]byte, ts uint32, salt int, cbSat uint64, txs []*btc.Tx) (raw []byte, cb *btc.Tx) {
	cb = coinbaseTx(height, 500000+salt, []OutDef{{Amt: SatAmt(cbSat), Addr: 0, St: StP2SH}}, WitnessCommitment(txs))
	raw = MakeBlock(0x20000000, parent, ts, MinBits, append([]*btc.Tx{cb}, txs...))
	return
}

// RegisterTx adds a transaction built outside NewWorld (coinbases of run-time blocks, bulky transactions)
// to the id tables. def may be nil for coinbases.
func (w *World) RegisterTx(id int, tx *btc.Tx, def *TxDef) {
	w.txs[id] = tx
	w.TxID[tx.Hash.Hash] = id
	if def != nil {
		w.Sc.Tx[id] = *def
	}
}

// BulkyTx builds a transaction spending the single input `in` (an anyone-can-spend P2SH output of address
// addr worth inSat) with two outputs: outSat to the P2SH script of address outAddr, and a zero-value
// unspendable data output (OP_RETURN followed by `bulk` zero bytes) that only makes the transaction big.
func (w *World) BulkyTx(in InDef, inAddr int, outSat uint64, outAddr int, bulk int) *btc.Tx {
	tx := &btc.Tx{Version: 2}
	ti := &btc.TxIn{Sequence: 0xffffffff}
	ti.Input.Hash = w.realTxid(in.Tx)
	ti.Input.Vout = uint32(in.Vout - 1)
	ti.ScriptSig = pushData(innerScript(inAddr))
	tx.TxIn = []*btc.TxIn{ti}
	tx.TxOut = append(tx.TxOut, &btc.TxOut{Value: outSat, Pk_script: PkScript(outAddr, StP2SH)})
	tx.TxOut = append(tx.TxOut, &btc.TxOut{Value: 0, Pk_script: append([]byte{0x6a}, bytes.Repeat([]byte{0}, bulk)...)})
	return finishTx(tx)
}

// FreshTx re-parses the raw bytes of scenario transaction t: the pool keeps and mutates the object it is
// handed (as the network layer does, every submission gets its own object).
func (w *World) FreshTx(t int) *btc.Tx {
	src := w.Tx(t)
	if src == nil {
		panic(fmt.Sprint("no such scenario transaction ", t))
	}
	raw := append([]byte(nil), src.Raw...)
	tx, n := btc.NewTx(raw)
	if tx == nil || n != len(raw) {
		panic("FreshTx: undecodable")
	}
	tx.SetHash(raw)
	return tx
}

// TxIds lists the ids of all scenario transactions.
func (w *World) TxIds() (ids []int) {
	for id := range w.Sc.Tx {
		ids = append(ids, id)
	}
	return
}

// ------------------------------------------------------------------ scripts that carry signature operations

// Script kinds of the sigop family (C12: the pool's recorded SigopsCost must be exact and block assembly cuts on it).
const (
	KindP2SHSig     = 1 // P2SH, redeem script = SigopScript(tag, n): valid without signatures, n x OP_CHECKMULTISIG counted
	KindP2WSHSig    = 2 // P2WSH, witness script = SigopScript(tag, n)
	KindP2SHP2WSH   = 3 // P2SH-wrapped P2WSH of the same script
	KindP2WPKH      = 4 // pay to witness key hash (signed with gocoin's signer)
	KindPlainP2SH   = 5 // the concretiser's anyone-can-spend P2SH (no sigops)
	opIF, opELSE    = 0x63, 0x67
	opENDIF         = 0x68
	opCHECKMULTISIG = 0xae
)

// SigopScript: <tag> DROP 1 IF 1 ELSE n x CHECKMULTISIG ENDIF - the executed branch leaves a single true value,
// the branch that is never executed carries the signature operations (20 each, no preceding key count).
func SigopScript(tag, n int) []byte {
	sc := []byte{4, 0x5c, byte(tag >> 16), byte(tag >> 8), byte(tag), opDROP, btc.OP_1, opIF, btc.OP_1, opELSE}
	sc = append(sc, bytes.Repeat([]byte{opCHECKMULTISIG}, n)...)
	return append(sc, opENDIF)
}

// KindPkScript returns the output script of a sigop-family output.
func KindPkScript(kind, tag, n int) []byte {
	switch kind {
	case KindP2SHSig:
		return append(append([]byte{btc.OP_HASH160, 20}, hash160(SigopScript(tag, n))...), btc.OP_EQUAL)
	case KindP2WSHSig:
		h := sha256.Sum256(SigopScript(tag, n))
		return append([]byte{0, 32}, h[:]...)
	case KindP2SHP2WSH:
		h := sha256.Sum256(SigopScript(tag, n))
		return append(append([]byte{btc.OP_HASH160, 20}, hash160(append([]byte{0, 32}, h[:]...))...), btc.OP_EQUAL)
	case KindP2WPKH:
		return PkScript(tag, StP2WPKH)
	}
	return PkScript(tag, StP2SH)
}

// KindOut describes one output of a sigop-family transaction.
type KindOut struct {
	Kind, Tag, N int
	Sat          uint64
	BareSigs     int // > 0: an additional zero-value output "BareSigs x OP_CHECKSIG" follows (legacy sigops of the tx itself)
}

// KindTx builds a transaction spending the given outputs of `parent` (a transaction built by KindTx, or nil with
// coinbase = height of a base coinbase) and creating outs.
func (w *World) KindTx(parent *btc.Tx, parentOuts []KindOut, vouts []int, coinbase int, outs []KindOut) *btc.Tx {
	tx := &btc.Tx{Version: 2}
	if parent == nil {
		ti := &btc.TxIn{Sequence: 0xffffffff}
		ti.Input.Hash = w.realTxid(coinbase)
		ti.ScriptSig = pushData(innerScript(0))
		tx.TxIn = []*btc.TxIn{ti}
	}
	anyWit := false
	for _, v := range vouts {
		ti := &btc.TxIn{Sequence: 0xffffffff}
		ti.Input.Hash = parent.Hash.Hash
		ti.Input.Vout = uint32(v)
		po := parentOuts[v]
		switch po.Kind {
		case KindP2SHSig:
			ti.ScriptSig = pushData(SigopScript(po.Tag, po.N))
		case KindP2SHP2WSH:
			h := sha256.Sum256(SigopScript(po.Tag, po.N))
			ti.ScriptSig = pushData(append([]byte{0, 32}, h[:]...))
			anyWit = true
		case KindP2WSHSig, KindP2WPKH:
			anyWit = true
		default:
			ti.ScriptSig = pushData(innerScript(po.Tag))
		}
		tx.TxIn = append(tx.TxIn, ti)
	}
	for _, o := range outs {
		tx.TxOut = append(tx.TxOut, &btc.TxOut{Value: o.Sat, Pk_script: KindPkScript(o.Kind, o.Tag, o.N)})
	}
	for _, o := range outs { // the bare CHECKSIG outputs come last: output i of the transaction is outs[i]
		if o.BareSigs > 0 {
			tx.TxOut = append(tx.TxOut, &btc.TxOut{Value: 0, Pk_script: bytes.Repeat([]byte{btc.OP_CHECKSIG}, o.BareSigs)})
		}
	}
	if anyWit {
		tx.SegWit = make([][][]byte, len(tx.TxIn))
		for i := range tx.SegWit {
			tx.SegWit[i] = [][]byte{}
		}
		tx.AllocVerVars()
		for i, v := range vouts {
			po := parentOuts[v]
			switch po.Kind {
			case KindP2WSHSig, KindP2SHP2WSH:
				tx.SegWit[i] = [][]byte{SigopScript(po.Tag, po.N)}
			case KindP2WPKH:
				pub := btc.PublicFromPrivate(privKey(po.Tag), true)
				sc := append(append([]byte{opDUP, btc.OP_HASH160, 20}, hash160(pub)...), opEQUALVERIFY, btc.OP_CHECKSIG)
				if e := tx.SignWitness(i, sc, po.Sat, 1, pub, privKey(po.Tag)); e != nil {
					panic(e)
				}
			}
		}
	}
	return finishTx(tx)
}
