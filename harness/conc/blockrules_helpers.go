// blockrules_helpers.go: concretiser for spec/BlockRules.tla (property C05).
//
// A context of the model (network kind, timestamps and targets of the parent chain, activation heights) is
// turned into a real chain; a block descriptor of the model into a real block on top of it. Everything the
// verdict depends on is built with this file's own code (compact targets and retargeting over math/big, BIP34
// height push, merkle tree, witness commitment, weight): gocoin's SetCompact / GetCompact / UintToScript /
// CalcMerkle are not used to BUILD the inputs they are checked with. (MakeBlock grinds the nonce with
// btc.CheckProofOfWork; every header is re-checked with RefPowOK before use.)
package conc

import (
	"bytes"
	"crypto/sha256"
	"encoding/binary"
	"fmt"
	"math/big"
	"os"
	"path/filepath"
	"sort"

	"github.com/piotrnar/gocoin/lib/btc"
	"github.com/piotrnar/gocoin/lib/chain"
	"github.com/piotrnar/gocoin/lib/utxo"
)

// ------------------------------------------------------------------ reference compact-target arithmetic

// RefDecodeCompact: arith_uint256::SetCompact as specified (value as a non-negative magnitude, sign and
// overflow flags).
func RefDecodeCompact(c uint32) (mag *big.Int, neg, ovf bool) {
	size := int(c >> 24)
	word := int64(c & 0x007fffff)
	if size <= 3 {
		word >>= uint(8 * (3 - size))
		mag = big.NewInt(word)
	} else {
		mag = new(big.Int).Lsh(big.NewInt(word), uint(8*(size-3)))
	}
	neg = word != 0 && (c&0x00800000) != 0
	ovf = word != 0 && (size > 34 || (word > 0xff && size > 33) || (word > 0xffff && size > 32))
	return
}

// RefEncodeCompact: arith_uint256::GetCompact for a non-negative value.
func RefEncodeCompact(v *big.Int) uint32 {
	size := (v.BitLen() + 7) / 8
	var c uint32
	if size <= 3 {
		c = uint32(v.Uint64() << uint(8*(3-size)))
	} else {
		c = uint32(new(big.Int).Rsh(v, uint(8*(size-3))).Uint64())
	}
	if c&0x00800000 != 0 {
		c >>= 8
		size++
	}
	return c | uint32(size)<<24
}

// RefPowOK: the hash (as a little-endian 256-bit number) meets the target encoded by bits, and the encoding is
// a valid target (not negative, not zero, no overflow).
func RefPowOK(hash [32]byte, bits uint32) bool {
	mag, neg, ovf := RefDecodeCompact(bits)
	if neg || ovf || mag.Sign() == 0 {
		return false
	}
	return HashNum(hash).Cmp(mag) <= 0
}

func HashNum(hash [32]byte) *big.Int {
	var be [32]byte
	for i := range hash {
		be[31-i] = hash[i]
	}
	return new(big.Int).SetBytes(be[:])
}

const (
	BRTargetTimespan = 14 * 24 * 60 * 60
	BRLimitBits      = MinBits
)

// RefRetarget: new compact target from the compact target `base` and the (already clamped or deliberately
// unclamped) timespan: base * span / T, capped at the proof-of-work limit.
func RefRetarget(base uint32, span int64) uint32 {
	t, _, _ := RefDecodeCompact(base)
	t.Mul(t, big.NewInt(span))
	t.Div(t, big.NewInt(BRTargetTimespan))
	lim, _, _ := RefDecodeCompact(BRLimitBits)
	if t.Cmp(lim) > 0 {
		t = lim
	}
	return RefEncodeCompact(t)
}

// EvalBits evaluates a target term of the model: <<>> is the proof-of-work limit, <<s1, .., sn>> is
// Retarget(..Retarget(limit, s1).., sn); a single negative number is one of the special header values.
// req is the evaluated required target (for "harder than required").
func EvalBits(term []int64, req uint32) uint32 {
	if len(term) == 1 && term[0] < 0 {
		switch term[0] {
		case -1: // well-formed, one mantissa step harder than required
			m, _, _ := RefDecodeCompact(req)
			m.Sub(m, new(big.Int).Lsh(big.NewInt(1), uint(8*(int(req>>24)-3))))
			return RefEncodeCompact(m)
		case -2: // well-formed, above the proof-of-work limit
			return 0x2100ffff
		case -3: // sign bit set
			return 0x20ffffff
		case -4: // zero mantissa
			return 0x20000000
		case -5: // overflowing exponent
			return 0x23000001
		}
		panic(fmt.Sprint("unknown special bits code ", term[0]))
	}
	b := uint32(BRLimitBits)
	for _, s := range term {
		b = RefRetarget(b, s)
	}
	return b
}

// ------------------------------------------------------------------ contexts

type BRSeg struct {
	From int     `json:"from"`
	T    int64   `json:"t"`
	Step int64   `json:"step"`
	Bits []int64 `json:"bits"`
}

type BRTail struct {
	T    int64   `json:"t"`
	Bits []int64 `json:"bits"`
}

type BRAct struct {
	B34 uint32 `json:"b34"`
	B66 uint32 `json:"b66"`
	B65 uint32 `json:"b65"`
	CSV uint32 `json:"csv"`
	SW  uint32 `json:"sw"`
}

type BRCtx struct {
	ID   string   `json:"id"`
	Net  string   `json:"net"`
	P    int      `json:"P"`
	Segs []BRSeg  `json:"segs"`
	Tail []BRTail `json:"tail"` // heights P-len+1 .. P (height 0 = the genesis block may be its first entry)
	Act  BRAct    `json:"act"`
	Txs  bool     `json:"txs"`
}

// TailStart: height of the first tail entry.
func (c *BRCtx) TailStart() int { return c.P - len(c.Tail) + 1 }

func (c *BRCtx) TsAt(h int) int64 {
	if h >= c.TailStart() {
		return c.Tail[h-c.TailStart()].T
	}
	for i := len(c.Segs) - 1; i >= 0; i-- {
		if h >= c.Segs[i].From {
			return c.Segs[i].T + int64(h-c.Segs[i].From)*c.Segs[i].Step
		}
	}
	panic("height below the first segment")
}

func (c *BRCtx) BitsAt(h int) uint32 {
	if h >= c.TailStart() {
		return EvalBits(c.Tail[h-c.TailStart()].Bits, 0)
	}
	for i := len(c.Segs) - 1; i >= 0; i-- {
		if h >= c.Segs[i].From {
			return EvalBits(c.Segs[i].Bits, 0)
		}
	}
	panic("height below the first segment")
}

// StemKey identifies the part of the chain shared by contexts (blocks 1..StemLen of the same recipe).
func (c *BRCtx) StemKey() string {
	return fmt.Sprint(c.Net, c.Segs)
}

// ChainKey identifies the whole parent chain.
func (c *BRCtx) ChainKey() string {
	return fmt.Sprint(c.Net, c.Segs, c.P, c.Tail)
}

func BRGenesis(net string) *btc.Uint256 {
	h := sha256.Sum256([]byte("verif genesis " + net))
	switch net {
	case "test4":
		return GenesisHash
	case "test3":
		h[0], h[1] = 0x43, 0x49
	case "main":
		h[0], h[1] = 0x6f, 0xe2
	default:
		panic("unknown net " + net)
	}
	return btc.NewUint256(h[:])
}

// BRChain: one open real chain plus what the concretiser must know about its blocks.
type BRChain struct {
	Ch      *chain.Chain
	Dir     string
	Net     string
	G       uint32 // real time of model time 0 (the genesis block)
	Hashes  [][32]byte
	Cbs     []*btc.Tx // coinbase of height h at index h (nil for 0)
	spentAt map[int]bool
}

func BROpen(dir, net string, g uint32, act BRAct) *chain.Chain {
	ch := chain.NewChainExt(dir+string(os.PathSeparator), BRGenesis(net), false, &chain.NewChanOpts{}, &chain.BlockDBOpts{MaxCachedBlocks: 20})
	ch.Consensus.MaxPOWBits = MinBits
	ch.Consensus.MaxPOWValue = new(big.Int).Lsh(big.NewInt(0x7fffff), 8*29)
	ch.Consensus.GensisTimestamp = g
	BRSetAct(ch, act)
	ch.Consensus.Enforce_Taproot = 0
	ch.RebuildGenesisHeader()
	return ch
}

// BRSetAct sets the activation heights through the public Consensus fields (for CSV / SEGWIT gocoin reads 0
// as "never": the model never uses height 0).
func BRSetAct(ch *chain.Chain, act BRAct) {
	ch.Consensus.BIP34Height = act.B34
	ch.Consensus.BIP66Height = act.B66
	ch.Consensus.BIP65Height = act.B65
	ch.Consensus.Enforce_CSV = act.CSV
	ch.Consensus.Enforce_SEGWIT = act.SW
}

var BRAllActive = BRAct{1, 1, 1, 1, 1}

// script types of the prefix coinbases (anyone-can-spend)
const StP2WSHd = 9 // P2WSH of DROP <tag> DROP 1: the witness carries one free item before the script

func innerScriptD(addr int) []byte {
	return append(append([]byte{opDROP, 4}, tag(addr)...), opDROP, btc.OP_1)
}

func brPk(addr, st int) []byte {
	if st == StP2WSHd {
		return append([]byte{0, 32}, sha2(innerScriptD(addr))...)
	}
	return PkScript(addr, st)
}

// prefix coinbase outputs: 0..3 P2SH, 4..5 P2WSHd (5 BTC each)
const brNOut = 6

func brOutType(i int) int {
	if i < 4 {
		return StP2SH
	}
	return StP2WSHd
}

// Bip34Push: the script CScript() << height produces (own implementation).
func Bip34Push(h int64) []byte {
	if h == 0 {
		return []byte{0}
	}
	if h >= 1 && h <= 16 {
		return []byte{byte(0x50 + h)}
	}
	var le []byte
	for v := h; v > 0; v >>= 8 {
		le = append(le, byte(v))
	}
	if le[len(le)-1]&0x80 != 0 {
		le = append(le, 0)
	}
	return append([]byte{byte(len(le))}, le...)
}

func brPrefixCoinbase(h int) *btc.Tx {
	tx := &btc.Tx{Version: 1}
	ti := &btc.TxIn{Sequence: 0xffffffff}
	ti.Input.Vout = 0xffffffff
	ti.ScriptSig = append(Bip34Push(int64(h)), 4, 'v', 'f', byte(h>>8), byte(h))
	tx.TxIn = []*btc.TxIn{ti}
	for i := 0; i < brNOut; i++ {
		tx.TxOut = append(tx.TxOut, &btc.TxOut{Value: 500000000, Pk_script: brPk(h, brOutType(i))})
	}
	return finishTx(tx)
}

// Extend adds blocks up to height c.P following the context's recipe (timestamps and targets).
func (bc *BRChain) Extend(c *BRCtx, upto int) error {
	for h := len(bc.Hashes); h <= upto; h++ {
		cb := brPrefixCoinbase(h)
		ts := uint32(int64(bc.G) + c.TsAt(h))
		raw := MakeBlock(4, bc.Hashes[h-1], ts, c.BitsAt(h), []*btc.Tx{cb})
		bl, e := btc.NewBlock(raw)
		if e != nil {
			return e
		}
		bc.Ch.BlockIndexAccess.Lock()
		_, _, e = bc.Ch.CheckBlock(bl)
		bc.Ch.BlockIndexAccess.Unlock()
		if e == nil {
			e = bc.Ch.AcceptBlock(bl)
		}
		if e != nil {
			return fmt.Errorf("parent-chain block %d (time %d, bits %08x) refused: %v", h, c.TsAt(h), c.BitsAt(h), e)
		}
		bc.Hashes = append(bc.Hashes, bl.Hash.Hash)
		bc.Cbs = append(bc.Cbs, cb)
	}
	return nil
}

// BRNewChain creates an empty chain (genesis only) in dir.
func BRNewChain(dir, net string, g uint32) *BRChain {
	os.RemoveAll(dir)
	os.MkdirAll(dir, 0770)
	utxo.UTXO_WRITING_TIME_TARGET = 0
	ch := BROpen(dir, net, g, BRAllActive)
	return &BRChain{Ch: ch, Dir: dir, Net: net, G: g, Hashes: [][32]byte{BRGenesis(net).Hash}, Cbs: []*btc.Tx{nil}}
}

// Reopen: the same block list on a copy of the directory.
func (bc *BRChain) CloneTo(dir string, act BRAct) (*BRChain, error) {
	os.RemoveAll(dir)
	// the undo files (one per block) and the previous snapshot are not needed: no block is ever undone
	if e := os.MkdirAll(dir, 0770); e != nil {
		return nil, e
	}
	ents, e := os.ReadDir(bc.Dir)
	if e != nil {
		return nil, e
	}
	for _, en := range ents {
		if en.IsDir() || en.Name() == "UTXO.old" {
			continue
		}
		b, e := os.ReadFile(filepath.Join(bc.Dir, en.Name()))
		if e != nil {
			return nil, e
		}
		if e = os.WriteFile(filepath.Join(dir, en.Name()), b, 0660); e != nil {
			return nil, e
		}
	}
	ch := BROpen(dir, bc.Net, bc.G, act)
	n := &BRChain{Ch: ch, Dir: dir, Net: bc.Net, G: bc.G, Hashes: bc.Hashes, Cbs: bc.Cbs}
	if int(ch.LastBlock().Height) != len(bc.Hashes)-1 || ch.LastBlock().BlockHash.Hash != bc.Hashes[len(bc.Hashes)-1] {
		return nil, fmt.Errorf("clone of %s opens at height %d, expected %d", bc.Dir, ch.LastBlock().Height, len(bc.Hashes)-1)
	}
	return n, nil
}

func (bc *BRChain) Close() { bc.Ch.Close() }

// StateDigest: tip hash, number of indexed blocks and a digest of the complete UTXO set.
func (bc *BRChain) StateDigest() string {
	db := bc.Ch.Unspent
	var recs [][]byte
	for i := range db.HashMap {
		db.MapMutex[i].RLock()
		for k, v := range db.HashMap[i] {
			r := append(append([]byte{}, k[:]...), (*v)...)
			recs = append(recs, r)
		}
		db.MapMutex[i].RUnlock()
	}
	sort.Slice(recs, func(a, b int) bool { return bytes.Compare(recs[a], recs[b]) < 0 })
	s := sha256.New()
	for _, r := range recs {
		var l [4]byte
		binary.LittleEndian.PutUint32(l[:], uint32(len(r)))
		s.Write(l[:])
		s.Write(r)
	}
	bc.Ch.BlockIndexAccess.Lock()
	n := len(bc.Ch.BlockIndex)
	bc.Ch.BlockIndexAccess.Unlock()
	return fmt.Sprintf("%s/%d/%d/%x", bc.Ch.LastBlock().BlockHash.String(), n, len(recs), s.Sum(nil)[:12])
}

// ------------------------------------------------------------------ descriptors

type BRVal struct {
	K string `json:"k"` // abs: model time v (offset from the genesis time); now: wall clock + v; height / zero
	V int64  `json:"v"`
}

type BRDesc struct {
	Pow     string `json:"pow"`
	Bits    string `json:"bits"`
	Time    string `json:"time"`
	Ver     string `json:"ver"`
	Cb      string `json:"cb"`
	Cblen   string `json:"cblen"`
	B34     string `json:"b34"`
	Lock    string `json:"lock"`
	Seqfin  bool   `json:"seqfin"`
	Ltx     string `json:"ltx"`
	Ntx     int    `json:"ntx"` // transactions incl. the coinbase in layout "first"
	Merkle  string `json:"merkle"`
	Commit  string `json:"commit"`
	Witdata bool   `json:"witdata"`
	Weight  string `json:"weight"`
}

// BRRes: what the model resolved for the harness (which numbers the classes stand for in this context).
type BRRes struct {
	Time BRVal   `json:"time"`
	Lock BRVal   `json:"lock"`
	Bits []int64 `json:"bits"`
	Req  []int64 `json:"req"`
	Mtp  int64   `json:"mtp"`
}

func (v BRVal) real(g uint32, now int64) uint32 {
	switch v.K {
	case "abs":
		return uint32(int64(g) + v.V)
	case "now":
		return uint32(now + v.V)
	case "height":
		return uint32(v.V)
	case "zero":
		return 0
	}
	panic("unknown value kind " + v.K)
}

func termsEqual(a, b []int64) bool {
	if len(a) != len(b) {
		return false
	}
	for i := range a {
		if a[i] != b[i] {
			return false
		}
	}
	return true
}

var BRVersions = map[string]uint32{"0": 0, "1": 1, "2": 2, "3": 3, "4": 4, "big": 0x20000000, "neg": 0xffffffff, "minint": 0x80000000}

type BRBuilt struct {
	Raw        []byte
	Bits, Req  uint32
	Weight     int
	NTx        int
	Ts         uint32
	LockTime   uint32
	Degenerate string // non-empty: the concretised block does not realise the descriptor (never judged)
}

func serSize(tx *btc.Tx) (stripped, total int) {
	total = len(tx.Raw)
	if tx.SegWit == nil {
		return total, total
	}
	return len(tx.Serialize()), total
}

func vlenSize(n int) int {
	if n < 0xfd {
		return 1
	}
	if n < 0x10000 {
		return 3
	}
	return 5
}

// BlockWeight per BIP141, computed from the serialised transactions (own arithmetic).
func BlockWeight(txs []*btc.Tx) int {
	w := 4 * (80 + vlenSize(len(txs)))
	for _, t := range txs {
		s, tot := serSize(t)
		w += 3*s + tot
	}
	return w
}

func brCommitment(txs []*btc.Tx, nonce []byte) []byte {
	leaves := make([][32]byte, len(txs))
	for i, t := range txs {
		if i > 0 {
			leaves[i] = ownWtxid(t)
		}
	}
	root := Merkle(leaves)
	c := dsha(append(root[:], nonce...))
	return c[:]
}

func ownWtxid(t *btc.Tx) [32]byte { return dsha(t.Raw) }

func commitOut(c []byte) *btc.TxOut {
	return &btc.TxOut{Value: 0, Pk_script: append([]byte{0x6a, 0x24, 0xaa, 0x21, 0xa9, 0xed}, c...)}
}

// Build concretises descriptor d (with the model's resolved values r) on top of the chain's tip.
// serial makes blocks of different descriptors distinct; now is the wall-clock second the block is built for.
func (bc *BRChain) Build(c *BRCtx, d *BRDesc, r *BRRes, serial int, now int64) (*BRBuilt, error) {
	H := c.P + 1
	out := &BRBuilt{}
	out.Req = EvalBits(r.Req, 0)
	out.Bits = EvalBits(r.Bits, out.Req)
	_, reqneg, reqovf := RefDecodeCompact(out.Req)
	if reqneg || reqovf {
		return nil, fmt.Errorf("required bits %08x are not a valid target", out.Req)
	}
	// the model compares target TERMS; the verdict is only meaningful if the values compare the same way
	if termsEqual(r.Bits, r.Req) != (out.Bits == out.Req) {
		out.Degenerate = fmt.Sprintf("bits class %s: term %v evaluates to %08x, required term %v to %08x", d.Bits, r.Bits, out.Bits, r.Req, out.Req)
	}
	out.Ts = r.Time.real(bc.G, now)
	out.LockTime = r.Lock.real(bc.G, now)
	if r.Lock.K == "abs" || r.Lock.K == "now" {
		if out.LockTime < 500000000 {
			return nil, fmt.Errorf("time lock %d below the threshold", out.LockTime)
		}
	} else if out.LockTime >= 500000000 {
		return nil, fmt.Errorf("height lock %d above the threshold", out.LockTime)
	}
	ver, ok := BRVersions[d.Ver]
	if !ok {
		return nil, fmt.Errorf("unknown version class %s", d.Ver)
	}

	hdr := func(root [32]byte, grindBad bool) []byte {
		h := make([]byte, 80)
		binary.LittleEndian.PutUint32(h[0:4], ver)
		copy(h[4:36], bc.Hashes[c.P][:])
		copy(h[36:68], root[:])
		binary.LittleEndian.PutUint32(h[68:72], out.Ts)
		binary.LittleEndian.PutUint32(h[72:76], out.Bits)
		mag, neg, ovf := RefDecodeCompact(out.Bits)
		canmeet := !neg && !ovf && mag.Sign() > 0
		for n := uint32(0); n < 1<<24; n++ {
			binary.LittleEndian.PutUint32(h[76:80], n)
			if !canmeet {
				return h // no hash meets a negative / zero / overflowing target: the block is invalid whatever the nonce
			}
			met := HashNum(dsha(h)).Cmp(mag) <= 0
			if met != grindBad {
				return h
			}
		}
		return nil
	}

	if d.Cb == "notx80" || d.Cb == "notx81" {
		h := hdr([32]byte{}, d.Pow == "bad")
		if h == nil {
			return nil, fmt.Errorf("no nonce found")
		}
		out.Raw = h
		if d.Cb == "notx81" {
			out.Raw = append(h, 0)
		}
		return out, nil
	}

	// ---- non-coinbase transactions
	var txa, txb *btc.Tx
	lockOnTx := d.Ltx == "tx"
	if c.Txs {
		// spend matured prefix coinbases (heights 1..H-100), chosen by serial
		nm := H - 100
		if nm < 3 {
			return nil, fmt.Errorf("context %s has no matured coins", c.ID)
		}
		h1 := 1 + serial%nm
		h2 := 1 + (serial+1)%nm
		mk := func(h int, vouts []int, lock uint32, seqs []uint32, wit bool, extra []*btc.TxOut, witpad int) *btc.Tx {
			tx := &btc.Tx{Version: 1, Lock_time: lock}
			var val uint64
			for i, vo := range vouts {
				ti := &btc.TxIn{Sequence: seqs[i]}
				ti.Input.Hash = bc.Cbs[h].Hash.Hash
				ti.Input.Vout = uint32(vo)
				if brOutType(vo) == StP2SH {
					ti.ScriptSig = pushData(innerScript(h))
				}
				tx.TxIn = append(tx.TxIn, ti)
				val += 500000000
			}
			tx.TxOut = append(tx.TxOut, &btc.TxOut{Value: val - 10000, Pk_script: PkScript(serial&0xffff, StP2SH)})
			tx.TxOut = append(tx.TxOut, extra...)
			if wit {
				tx.SegWit = make([][][]byte, len(tx.TxIn))
				for i, vo := range vouts {
					if brOutType(vo) == StP2WSHd {
						tx.SegWit[i] = [][]byte{bytes.Repeat([]byte{0x5a}, witpad), innerScriptD(h)}
					} else {
						tx.SegWit[i] = [][]byte{}
					}
				}
			}
			return finishTx(tx)
		}
		seqA := []uint32{0xffffffff, 0xffffffff}
		lockA := uint32(0)
		if lockOnTx {
			lockA = out.LockTime
			if !d.Seqfin {
				seqA[1] = 0xfffffffe
			}
		}
		// the weight filler rides on transaction a; witness padding on transaction b; further plain
		// transactions (one input each, from other matured coinbases) bring the count to d.Ntx - 1
		if d.Ntx < 3 || d.Ntx-1 > nm {
			return nil, fmt.Errorf("cannot build %d transactions in context %s", d.Ntx, c.ID)
		}
		return bc.assemble(c, d, r, out, serial, hdr, func(fill []*btc.TxOut, witpad int) []*btc.Tx {
			txa = mk(h1, []int{0, 1}, lockA, seqA, false, fill, 0)
			if d.Witdata {
				txb = mk(h2, []int{2, 4}, 0, []uint32{0xffffffff, 0xffffffff}, true, nil, witpad)
			} else {
				txb = mk(h2, []int{2, 3}, 0, []uint32{0xffffffff, 0xffffffff}, false, nil, 0)
			}
			txs := []*btc.Tx{txa, txb}
			for k := 2; len(txs) < d.Ntx-1; k++ {
				txs = append(txs, mk(1+(serial+k)%nm, []int{0}, 0, []uint32{0xffffffff}, false, nil, 0))
			}
			return txs
		})
	}
	return bc.assemble(c, d, r, out, serial, hdr, nil)
}

func fillerOuts(n int) []*btc.TxOut {
	// n bytes of serialised outputs in total (each output: 8 value + varint + script), n >= 10
	var outs []*btc.TxOut
	for n > 0 {
		body := n
		if body > 9000+11 {
			body = 9000 + 11
			if n-body < 10 {
				body = n - 10
			}
		}
		// body = 8 + vlen(sl) + sl
		sl := body - 9
		if sl >= 0xfd {
			sl = body - 11
		}
		if 8+vlenSize(sl)+sl != body { // the 0xfc/0xfd seam
			sl = 0xfc
			body = 8 + 1 + sl
		}
		scr := make([]byte, sl)
		if sl > 0 {
			scr[0] = 0x6a
		}
		outs = append(outs, &btc.TxOut{Value: 0, Pk_script: scr})
		n -= body
	}
	return outs
}

func (bc *BRChain) assemble(c *BRCtx, d *BRDesc, r *BRRes, out *BRBuilt, serial int, hdr func([32]byte, bool) []byte,
	mkTxs func(fill []*btc.TxOut, witpad int) []*btc.Tx) (*BRBuilt, error) {
	H := c.P + 1
	lockOnCb := d.Ltx == "cb"

	// coinbase script
	var prefix []byte
	switch d.B34 {
	case "correct":
		prefix = Bip34Push(int64(H))
	case "wrong":
		prefix = Bip34Push(int64(H + 1))
	case "wrongm":
		prefix = Bip34Push(int64(H - 1))
	case "nonmin":
		if H <= 16 {
			prefix = []byte{1, byte(H)}
		} else {
			p := Bip34Push(int64(H))
			prefix = append(append([]byte{p[0] + 1}, p[1:]...), 0)
		}
	case "pushdata1":
		if H <= 16 {
			prefix = []byte{0x4c, 1, byte(H)}
		} else {
			p := Bip34Push(int64(H))
			prefix = append([]byte{0x4c}, p...)
		}
	case "missing":
		prefix = []byte{3, 'v', 'f', 'x'}
	default:
		return nil, fmt.Errorf("unknown bip34 class %s", d.B34)
	}
	var cbs []byte
	switch d.Cblen {
	case "normal":
		cbs = append(append([]byte{}, prefix...), 6, 'v', 'f', byte(serial>>24), byte(serial>>16), byte(serial>>8), byte(serial))
	case "1", "2", "100", "101":
		n := map[string]int{"1": 1, "2": 2, "100": 100, "101": 101}[d.Cblen]
		cbs = append([]byte{}, prefix...)
		for len(cbs) < n {
			cbs = append(cbs, 0)
		}
		cbs = cbs[:n]
		if n >= len(prefix)+4 {
			cbs[n-1], cbs[n-2], cbs[n-3] = byte(serial), byte(serial>>8), byte(serial>>16)
			if cbs[n-1] == 0 {
				cbs[n-1] = 0x51
			}
		}
	default:
		return nil, fmt.Errorf("unknown coinbase length class %s", d.Cblen)
	}

	mkCoinbase := func(others []*btc.Tx) (*btc.Tx, error) {
		tx := &btc.Tx{Version: 1}
		ti := &btc.TxIn{Sequence: 0xffffffff}
		ti.Input.Vout = 0xffffffff
		ti.ScriptSig = cbs
		if lockOnCb {
			tx.Lock_time = out.LockTime
			if !d.Seqfin {
				ti.Sequence = 0xfffffffe
			}
		}
		tx.TxIn = []*btc.TxIn{ti}
		tx.TxOut = []*btc.TxOut{{Value: 100000000, Pk_script: PkScript(serial&0xffff, StP2SH)}}
		nonce := bytes.Repeat([]byte{0x4e}, 32)
		all := append([]*btc.Tx{nil}, others...)
		good := func(n []byte) []byte { return brCommitment(all, n) }
		bad := func(n []byte) []byte { x := good(n); x[5] ^= 1; return x }
		switch d.Commit {
		case "absent":
		case "correct":
			tx.TxOut = append(tx.TxOut, commitOut(good(nonce)))
			tx.SegWit = [][][]byte{{nonce}}
		case "wrong":
			tx.TxOut = append(tx.TxOut, commitOut(bad(nonce)))
			tx.SegWit = [][][]byte{{nonce}}
		case "nonce31":
			tx.TxOut = append(tx.TxOut, commitOut(good(nonce[:31])))
			tx.SegWit = [][][]byte{{nonce[:31]}}
		case "nonce33":
			n33 := append(append([]byte{}, nonce...), 0x4e)
			tx.TxOut = append(tx.TxOut, commitOut(good(n33)))
			tx.SegWit = [][][]byte{{n33}}
		case "items2":
			tx.TxOut = append(tx.TxOut, commitOut(good(nonce)))
			tx.SegWit = [][][]byte{{nonce, nonce}}
		case "nononce":
			tx.TxOut = append(tx.TxOut, commitOut(good(nonce)))
		case "two_lastgood":
			tx.TxOut = append(tx.TxOut, commitOut(bad(nonce)), commitOut(good(nonce)))
			tx.SegWit = [][][]byte{{nonce}}
		case "two_lastbad":
			tx.TxOut = append(tx.TxOut, commitOut(good(nonce)), commitOut(bad(nonce)))
			tx.SegWit = [][][]byte{{nonce}}
		case "long_good": // a longer script with the commitment header counts as well (>= 38 bytes)
			o := commitOut(good(nonce))
			o.Pk_script = append(o.Pk_script, 1, 0x77)
			tx.TxOut = append(tx.TxOut, o)
			tx.SegWit = [][][]byte{{nonce}}
		default:
			return nil, fmt.Errorf("unknown commitment class %s", d.Commit)
		}
		return finishTx(tx), nil
	}

	layout := func(cb *btc.Tx, others []*btc.Tx) ([]*btc.Tx, error) {
		// second coinbase for the two / notfirst layouts
		cb2 := func() *btc.Tx {
			tx := &btc.Tx{Version: 1}
			ti := &btc.TxIn{Sequence: 0xffffffff}
			ti.Input.Vout = 0xffffffff
			ti.ScriptSig = append(append([]byte{}, cbs...), 0x52)
			if len(ti.ScriptSig) > 100 {
				ti.ScriptSig = ti.ScriptSig[:100]
				ti.ScriptSig[99] ^= 0x52
			}
			tx.TxIn = []*btc.TxIn{ti}
			tx.TxOut = []*btc.TxOut{{Value: 0, Pk_script: PkScript(serial&0xffff, StP2SH)}}
			return finishTx(tx)
		}
		switch d.Cb {
		case "first":
			return append([]*btc.Tx{cb}, others...), nil
		case "none":
			if len(others) == 0 {
				return nil, fmt.Errorf("layout none needs transactions")
			}
			return others, nil
		case "two":
			return append([]*btc.Tx{cb, cb2()}, others...), nil
		case "notfirst":
			if len(others) == 0 {
				return nil, fmt.Errorf("layout notfirst needs transactions")
			}
			return append([]*btc.Tx{others[0], cb}, others[1:]...), nil
		}
		return nil, fmt.Errorf("unknown layout %s", d.Cb)
	}

	// weight classes: max = the heaviest block of this shape with weight <= 4,000,000, over = the lightest
	// with weight > 4,000,000 (the exact boundary values wherever the shape can reach them)
	var targets []int
	switch d.Weight {
	case "normal":
	case "max":
		targets = []int{4000000, 3999999, 3999998, 3999997}
	case "over":
		targets = []int{4000001, 4000002, 4000003, 4000004}
	default:
		return nil, fmt.Errorf("unknown weight class %s", d.Weight)
	}
	if targets != nil && mkTxs == nil {
		return nil, fmt.Errorf("weight classes need transactions")
	}
	dupK := map[string]int{"dup1": 1, "dup2": 2, "dup4": 4}[d.Merkle]
	var txs []*btc.Tx
	make1 := func(fill, witpad int) error {
		var others []*btc.Tx
		if mkTxs != nil {
			var fo []*btc.TxOut
			if fill > 0 {
				fo = fillerOuts(fill)
			}
			others = mkTxs(fo, witpad)
		}
		cb, e := mkCoinbase(others)
		if e != nil {
			return e
		}
		txs, e = layout(cb, others)
		if e != nil {
			return e
		}
		if dupK > 0 {
			// CVE-2012-2459: append a copy of the last dupK transactions; the root is preserved when the tree
			// has an odd number of nodes at that level (checked below against the honest list's root)
			n := len(txs)
			if n%dupK != 0 || (n/dupK)%2 != 1 || n/dupK < 2 {
				return fmt.Errorf("%d transactions cannot be extended by their last %d without changing the root", n, dupK)
			}
			txs = append(txs, txs[n-dupK:]...)
		}
		out.Weight = BlockWeight(txs)
		return nil
	}
	if e := make1(0, 7); e != nil {
		return nil, e
	}
	if targets != nil {
		// one byte of filler weighs 4 (transaction a is never duplicated); one byte of witness padding weighs
		// as many units as there are copies of transaction b
		w7 := out.Weight
		wstep := 0
		if d.Witdata {
			if e := make1(0, 8); e != nil {
				return nil, e
			}
			wstep = out.Weight - w7
		}
		reached := false
	search:
		for _, target := range targets {
			for k := 0; k < 4; k++ {
				if k > 0 && wstep == 0 {
					break
				}
				if (target-w7-k*wstep)%4 != 0 {
					continue
				}
				witpad := 7 + k
				fill := (target - w7 - k*wstep) / 4
				for iter := 0; iter < 12; iter++ {
					if fill < 10 {
						return nil, fmt.Errorf("block too heavy for weight %d", target)
					}
					if e := make1(fill, witpad); e != nil {
						return nil, e
					}
					if out.Weight == target {
						reached = true
						break search
					}
					if (target-out.Weight)%4 != 0 {
						break
					}
					fill += (target - out.Weight) / 4
				}
			}
		}
		if !reached {
			return nil, fmt.Errorf("cannot reach any of the weights %v (at %d)", targets, out.Weight)
		}
	}
	out.NTx = len(txs)

	leaves := make([][32]byte, len(txs))
	for i, t := range txs {
		leaves[i] = t.Hash.Hash
	}
	root := Merkle(leaves)
	if dupK > 0 {
		if root != Merkle(leaves[:len(leaves)-dupK]) {
			return nil, fmt.Errorf("duplicate-tail mutation does not keep the merkle root")
		}
	}
	if d.Merkle == "wrong" {
		root[7] ^= 0x10
	}
	h := hdr(root, d.Pow == "bad")
	if h == nil {
		return nil, fmt.Errorf("no nonce found for bits %08x", out.Bits)
	}
	buf := new(bytes.Buffer)
	buf.Write(h)
	btc.WriteVlen(buf, uint64(len(txs)))
	for _, t := range txs {
		buf.Write(t.Raw)
	}
	out.Raw = buf.Bytes()
	return out, nil
}
