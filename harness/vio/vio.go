// Package vio: shared plumbing of the conformance drivers (JSON-lines in, JSON-lines out, worker pool).
package vio

import (
	"bufio"
	"encoding/json"
	"fmt"
	"io"
	"os"
	"sync"
)

// ReadLines calls fn for every non-empty line of the file (or stdin when name is "-").
func ReadLines(name string, fn func(n int, line []byte) error) error {
	var r io.Reader = os.Stdin
	if name != "-" {
		f, err := os.Open(name)
		if err != nil {
			return err
		}
		defer f.Close()
		r = f
	}
	br := bufio.NewReaderSize(r, 1<<20)
	n := 0
	for {
		line, err := br.ReadBytes('\n')
		if len(line) > 1 {
			if e := fn(n, line); e != nil {
				return e
			}
			n++
		}
		if err != nil {
			if err == io.EOF {
				return nil
			}
			return err
		}
	}
}

// Out is a concurrency-safe JSON-lines writer on stdout.
type Out struct {
	mu sync.Mutex
	w  *bufio.Writer
}

func NewOut() *Out { return &Out{w: bufio.NewWriterSize(os.Stdout, 1<<20)} }

func (o *Out) Put(v interface{}) {
	b, err := json.Marshal(v)
	if err != nil {
		b = []byte(fmt.Sprintf(`{"marshal_error":%q}`, err.Error()))
	}
	o.mu.Lock()
	o.w.Write(b)
	o.w.WriteByte('\n')
	o.mu.Unlock()
}

func (o *Out) Flush() { o.mu.Lock(); o.w.Flush(); o.mu.Unlock() }

// Pool runs fn over jobs with n workers; worker index is passed so each can own a scratch directory.
func Pool(n int, jobs <-chan []byte, fn func(worker int, job []byte)) {
	var wg sync.WaitGroup
	for w := 0; w < n; w++ {
		wg.Add(1)
		go func(w int) {
			defer wg.Done()
			for j := range jobs {
				fn(w, j)
			}
		}(w)
	}
	wg.Wait()
}
